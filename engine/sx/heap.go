package sx

import (
	"fmt"
	"go/types"

	"golang.org/x/tools/go/ssa"
)

func getPath(v Value, path []int) Value {
	for _, i := range path {
		switch c := v.(type) {
		case *StructVal:
			v = c.F[i]
		case *ArrayVal:
			if i >= len(c.E) {
				return nil
			}
			v = c.E[i]
		default:
			panic(&EngineError{fmt.Sprintf("getPath through %T", v)})
		}
	}
	return v
}

func setPath(v Value, path []int, nv Value) Value {
	if len(path) == 0 {
		return nv
	}
	i := path[0]
	switch c := v.(type) {
	case *StructVal:
		n := &StructVal{F: make([]Value, len(c.F))}
		copy(n.F, c.F)
		n.F[i] = setPath(c.F[i], path[1:], nv)
		return n
	case *ArrayVal:
		n := &ArrayVal{E: make([]Value, len(c.E))}
		copy(n.E, c.E)
		n.E[i] = setPath(c.E[i], path[1:], nv)
		return n
	}
	panic(&EngineError{fmt.Sprintf("setPath through %T", v)})
}

// load reads through a guarded pointer. Nil alternatives panic.
func (x *Exec) load(s *State, p *PtrVal, t types.Type) (Value, bool) {
	nilG := x.ptrIsNil(p)
	if !x.panicIf(s, nilG, "nil pointer dereference") {
		return nil, false
	}
	var r Value
	for _, a := range p.Alts {
		if a.Obj == 0 || a.G.IsFalse() {
			continue
		}
		obj, ok := s.Heap[a.Obj]
		if !ok {
			x.fail("load from unknown object %d", a.Obj)
		}
		v := getPath(obj, a.Path)
		if v == nil {
			continue // out-of-range alternative (guard is infeasible by the bounds check)
		}
		if r == nil {
			r = v
		} else {
			r = x.ite(a.G, v, r)
		}
	}
	if r == nil {
		// every alternative of the pointer has a false guard: the value is undefined on this path,
		// which is sound only if the path itself is infeasible — left to the solver to confirm
		x.oblige(s, "escape", "pointer without live alternatives dereferenced (path must be infeasible)", s.G)
		s.dead = true
		return nil, false
	}
	return r, true
}

// store writes through a guarded pointer.
func (x *Exec) store(s *State, p *PtrVal, v Value) bool {
	nilG := x.ptrIsNil(p)
	if !x.panicIf(s, nilG, "nil pointer dereference (store)") {
		return false
	}
	single := len(p.Alts) == 1
	for _, a := range p.Alts {
		if a.Obj == 0 || a.G.IsFalse() {
			continue
		}
		obj := s.Heap[a.Obj]
		if single || a.G.IsTrue() {
			s.Heap[a.Obj] = setPath(obj, a.Path, v)
			continue
		}
		old := getPath(obj, a.Path)
		if old == nil {
			continue
		}
		s.Heap[a.Obj] = setPath(obj, a.Path, x.ite(a.G, v, old))
	}
	return true
}

func (x *Exec) fieldAddr(s *State, p *PtrVal, field int) (Value, bool) {
	if !x.panicIf(s, x.ptrIsNil(p), "nil pointer dereference (field)") {
		return nil, false
	}
	out := &PtrVal{}
	for _, a := range p.Alts {
		if a.Obj == 0 {
			continue
		}
		np := make([]int, len(a.Path)+1)
		copy(np, a.Path)
		np[len(a.Path)] = field
		out.Alts = append(out.Alts, PtrAlt{G: a.G, Obj: a.Obj, Path: np})
	}
	if len(out.Alts) == 0 {
		x.oblige(s, "escape", "field of a pointer without live alternatives (path must be infeasible)", s.G)
		s.dead = true
		return nil, false
	}
	return out, true
}

func (x *Exec) indexAddr(s *State, base Value, idx *Term) (Value, bool) {
	tb := x.tb
	switch b := base.(type) {
	case *SliceVal:
		if !x.panicIf(s, tb.Not(tb.ULt(idx, b.Len)), "index out of range (slice)") {
			return nil, false
		}
		return x.offsetPtr(s, b.Ptr, idx, int(min64(b.Len.Hi, 1<<20))), true
	case *PtrVal:
		// pointer to array
		if !x.panicIf(s, x.ptrIsNil(b), "nil pointer dereference (index)") {
			return nil, false
		}
		out := &PtrVal{}
		for _, a := range b.Alts {
			if a.Obj == 0 {
				continue
			}
			arr := getPath(s.Heap[a.Obj], a.Path).(*ArrayVal)
			n := len(arr.E)
			if !x.panicIf(s, tb.And(a.G, tb.Not(tb.ULt(idx, tb.Int64(int64(n))))), "index out of range (array)") {
				return nil, false
			}
			for k := 0; k < n; k++ {
				if uint64(k) < idx.Lo || uint64(k) > idx.Hi {
					continue
				}
				np := make([]int, len(a.Path)+1)
				copy(np, a.Path)
				np[len(a.Path)] = k
				out.Alts = append(out.Alts, PtrAlt{G: tb.And(a.G, tb.Eq(idx, tb.Int64(int64(k)))), Obj: a.Obj, Path: np})
			}
		}
		return x.normPtr(out), true
	}
	x.fail("indexAddr on %T", base)
	return nil, false
}

// offsetPtr advances an element pointer by idx elements (idx < limit).
func (x *Exec) offsetPtr(s *State, p *PtrVal, idx *Term, limit int) *PtrVal {
	tb := x.tb
	out := &PtrVal{}
	for _, a := range p.Alts {
		if a.Obj == 0 {
			continue
		}
		last := len(a.Path) - 1
		if idx.IsConst() {
			np := append([]int(nil), a.Path...)
			np[last] += int(idx.K)
			out.Alts = append(out.Alts, PtrAlt{G: a.G, Obj: a.Obj, Path: np})
			continue
		}
		arr := getPath(s.Heap[a.Obj], a.Path[:last]).(*ArrayVal)
		for k := 0; k < limit && a.Path[last]+k < len(arr.E); k++ {
			if uint64(k) < idx.Lo || uint64(k) > idx.Hi {
				continue
			}
			np := append([]int(nil), a.Path...)
			np[last] += k
			out.Alts = append(out.Alts, PtrAlt{G: tb.And(a.G, tb.Eq(idx, tb.Int64(int64(k)))), Obj: a.Obj, Path: np})
		}
	}
	if len(out.Alts) == 0 {
		return &PtrVal{Alts: []PtrAlt{{G: tb.False, Obj: 0}}}
	}
	return x.normPtr(out)
}

func (x *Exec) makeSlice(s *State, et types.Type, ln, cp *Term) (Value, bool) {
	tb := x.tb
	if !cp.IsConst() {
		if cp.Hi > 1<<20 {
			x.fail("make([]T, n) with unbounded symbolic n")
		}
	}
	n := int(cp.Hi)
	if !x.panicIf(s, tb.Not(tb.ULe(ln, cp)), "makeslice: len out of range") {
		return nil, false
	}
	arr := &ArrayVal{E: make([]Value, n)}
	z := x.zero(et)
	for i := range arr.E {
		arr.E[i] = z
	}
	id := x.newObj(arr, s)
	return &SliceVal{Ptr: x.ptrTo(id, 0), Len: ln, Cap: cp}, true
}

func (x *Exec) sliceOp(s *State, f *Frame, in *ssa.Slice) (Value, bool) {
	tb := x.tb
	base := x.val(s, f, in.X)
	var lo, hi, mx *Term
	if in.Low != nil {
		lo = x.toInt64(x.val(s, f, in.Low).(*Term), in.Low.Type())
	} else {
		lo = tb.Int64(0)
	}
	if in.High != nil {
		hi = x.toInt64(x.val(s, f, in.High).(*Term), in.High.Type())
	}
	if in.Max != nil {
		mx = x.toInt64(x.val(s, f, in.Max).(*Term), in.Max.Type())
	}
	switch b := base.(type) {
	case *StrVal:
		if hi == nil {
			hi = b.Len
		}
		bad := tb.Or(tb.Not(tb.ULe(lo, hi)), tb.Not(tb.ULe(hi, b.Len)))
		if !x.panicIf(s, bad, "slice bounds out of range (string)") {
			return nil, false
		}
		return x.strSlice(b, lo, hi), true
	case *SliceVal:
		if hi == nil {
			hi = b.Len
		}
		capT := b.Cap
		if mx == nil {
			mx = capT
		}
		bad := tb.OrN(tb.Not(tb.ULe(lo, hi)), tb.Not(tb.ULe(hi, mx)), tb.Not(tb.ULe(mx, capT)))
		if !x.panicIf(s, bad, "slice bounds out of range") {
			return nil, false
		}
		var np *PtrVal
		if lo.IsConst() && lo.K == 0 {
			np = b.Ptr
		} else {
			np = x.offsetPtr(s, b.Ptr, lo, int(min64(capT.Hi, 1<<20))+1)
			// a nil slice sliced [0:0] stays nil
			if nl := x.ptrIsNil(b.Ptr); !nl.IsFalse() {
				np = x.ite(nl, x.nilPtr(), np).(*PtrVal)
			}
		}
		return &SliceVal{Ptr: np, Len: x.clampSubMax(hi, lo, capT.Hi), Cap: x.clampSubMax(mx, lo, capT.Hi)}, true
	case *PtrVal:
		// pointer to array
		if !x.panicIf(s, x.ptrIsNil(b), "nil pointer dereference (slice of array)") {
			return nil, false
		}
		if len(b.Alts) != 1 {
			x.fail("slice of multi-target array pointer")
		}
		a := b.Alts[0]
		arr := getPath(s.Heap[a.Obj], a.Path).(*ArrayVal)
		n := tb.Int64(int64(len(arr.E)))
		if hi == nil {
			hi = n
		}
		if mx == nil {
			mx = n
		}
		bad := tb.OrN(tb.Not(tb.ULe(lo, hi)), tb.Not(tb.ULe(hi, mx)), tb.Not(tb.ULe(mx, n)))
		if !x.panicIf(s, bad, "slice bounds out of range (array)") {
			return nil, false
		}
		p0 := &PtrVal{Alts: []PtrAlt{{G: tb.True, Obj: a.Obj, Path: append(append([]int(nil), a.Path...), 0)}}}
		np := x.offsetPtr(s, p0, lo, len(arr.E)+1)
		return &SliceVal{Ptr: np, Len: x.clampSubMax(hi, lo, uint64(len(arr.E))), Cap: x.clampSubMax(mx, lo, uint64(len(arr.E)))}, true
	}
	x.fail("slice of %T", base)
	return nil, false
}

// ---------- maps ----------

func (x *Exec) keyEq(a, b Value) *Term {
	return x.valueEq(a, b)
}

type mapAlt struct {
	g   *Term
	obj *MapObj
	id  int
}

// mapAlts lists the live (non-nil) alternatives of a map value.
func (x *Exec) mapAlts(s *State, m *PtrVal) []mapAlt {
	var out []mapAlt
	for _, a := range m.Alts {
		if a.Obj == 0 || a.G.IsFalse() {
			continue
		}
		mo, ok := s.Heap[a.Obj].(*MapObj)
		if !ok {
			x.fail("map pointer to %T", s.Heap[a.Obj])
		}
		out = append(out, mapAlt{a.G, mo, a.Obj})
	}
	return out
}

// mapObj returns the single map object behind m (used by len on unmerged maps).
func (x *Exec) mapObj(s *State, m *PtrVal) (*MapObj, int) {
	al := x.mapAlts(s, m)
	if len(al) == 0 {
		return nil, 0
	}
	if len(al) > 1 {
		return x.mergedMap(al), 0
	}
	return al[0].obj, al[0].id
}

// mergedMap is a read-only view of a multi-alternative map value.
func (x *Exec) mergedMap(al []mapAlt) *MapObj {
	out := &MapObj{KT: al[0].obj.KT, VT: al[0].obj.VT}
	for _, a := range al {
		for _, e := range a.obj.Entries {
			p := x.tb.And(a.g, e.Present)
			if p.IsFalse() {
				continue
			}
			out.Entries = append(out.Entries, MapEntry{Key: e.Key, Present: p, Val: e.Val})
		}
	}
	return out
}

func (x *Exec) lookupIn(mo *MapObj, k Value, z Value) (Value, *Term) {
	tb := x.tb
	var r Value = z
	found := tb.False
	for i := len(mo.Entries) - 1; i >= 0; i-- {
		e := mo.Entries[i]
		if e.Present.IsFalse() {
			continue
		}
		hit := tb.And(e.Present, x.keyEq(e.Key, k))
		if hit.IsFalse() {
			continue
		}
		r = x.ite(hit, e.Val, r)
		found = tb.Or(found, hit)
	}
	return r, found
}

// mapLookup returns (value, ok).
func (x *Exec) mapLookup(s *State, m *PtrVal, k Value, vt types.Type) (Value, *Term) {
	tb := x.tb
	z := x.zero(vt)
	al := x.mapAlts(s, m)
	if len(al) == 0 {
		return z, tb.False
	}
	if len(al) == 1 {
		return x.lookupIn(al[0].obj, k, z)
	}
	var r Value = z
	found := tb.False
	for _, a := range al {
		v, ok := x.lookupIn(a.obj, k, z)
		r = x.ite(a.g, v, r)
		found = tb.Ite(a.g, ok, found)
	}
	return r, found
}

func (x *Exec) mapUpdate(s *State, m *PtrVal, k, v Value) bool {
	tb := x.tb
	if !x.panicIf(s, x.ptrIsNil(m), "assignment to entry in nil map") {
		return false
	}
	al := x.mapAlts(s, m)
	single := len(al) == 1
	for _, a := range al {
		g := a.g
		if single {
			g = tb.True
		}
		mo := a.obj
		n := &MapObj{KT: mo.KT, VT: mo.VT, Entries: make([]MapEntry, 0, len(mo.Entries)+1)}
		exists := tb.False
		sameDone := false
		for _, e := range mo.Entries {
			if x.sameKey(e.Key, k) {
				// syntactically the same key: one entry carries the binding afterwards
				if sameDone {
					p := tb.And(e.Present, tb.Not(g))
					if !p.IsFalse() {
						n.Entries = append(n.Entries, MapEntry{Key: e.Key, Present: p, Val: e.Val})
					}
					continue
				}
				sameDone = true
				n.Entries = append(n.Entries, MapEntry{Key: e.Key, Present: tb.Or(e.Present, g), Val: x.ite(g, v, e.Val)})
				continue
			}
			hit := tb.And(e.Present, x.keyEq(e.Key, k))
			if hit.IsFalse() {
				n.Entries = append(n.Entries, e)
				continue
			}
			exists = tb.Or(exists, hit)
			n.Entries = append(n.Entries, MapEntry{Key: e.Key, Present: e.Present, Val: x.ite(tb.And(g, hit), v, e.Val)})
		}
		if !sameDone && !exists.IsTrue() {
			n.Entries = append(n.Entries, MapEntry{Key: k, Present: tb.And(g, tb.Not(exists)), Val: v})
		}
		s.Heap[a.id] = n
	}
	return true
}

func (x *Exec) mapDelete(s *State, m *PtrVal, k Value) {
	tb := x.tb
	al := x.mapAlts(s, m)
	single := len(al) == 1
	for _, a := range al {
		g := a.g
		if single {
			g = tb.True
		}
		mo := a.obj
		n := &MapObj{KT: mo.KT, VT: mo.VT}
		for _, e := range mo.Entries {
			hit := tb.AndN(g, e.Present, x.keyEq(e.Key, k))
			p := tb.And(e.Present, tb.Not(hit))
			if p.IsFalse() {
				continue
			}
			n.Entries = append(n.Entries, MapEntry{Key: e.Key, Present: p, Val: e.Val})
		}
		s.Heap[a.id] = n
	}
}

func (x *Exec) mapLen(s *State, m *PtrVal) *Term {
	tb := x.tb
	count := func(mo *MapObj) *Term {
		r := tb.Int64(0)
		for _, e := range mo.Entries {
			r = tb.Add(r, tb.Ite(e.Present, tb.Int64(1), tb.Int64(0)))
		}
		return r
	}
	al := x.mapAlts(s, m)
	if len(al) == 0 {
		return tb.Int64(0)
	}
	// per alternative (equal counts fold to a constant whatever the guards are)
	var r *Term
	for _, a := range al {
		n := count(a.obj)
		if r == nil {
			r = n
		} else {
			r = tb.Ite(a.g, n, r)
		}
	}
	if nl := x.ptrIsNil(m); !nl.IsFalse() {
		r = tb.Ite(nl, tb.Int64(0), r)
	}
	return r
}

// ---------- range ----------

// rangeKey is the concrete part of a range iterator (comparable, so iterators at the same
// position merge); the symbolic part lives in OpaqueVal.V.
type rangeKey struct {
	Kind string // string | map
	Pos  int
}

func (x *Exec) makeRange(s *State, v Value, t types.Type) (Value, bool) {
	switch c := v.(type) {
	case *StrVal:
		return &OpaqueVal{Kind: "range", X: rangeKey{"string", 0}, V: &TupleVal{E: []Value{c, x.tb.False}}}, true
	case *PtrVal:
		mo, _ := x.mapObj(s, c)
		if mo == nil {
			mo = &MapObj{}
		}
		// iteration order: insertion order of the (snapshotted) entries — a stated restriction
		return &OpaqueVal{Kind: "range", X: rangeKey{"map", 0}, V: mo}, true
	}
	x.fail("range over %T", v)
	return nil, false
}

func (x *Exec) rangeNext(s *State, f *Frame, in *ssa.Next, itv Value) (Value, bool) {
	tb := x.tb
	ov := itv.(*OpaqueVal)
	rk := ov.X.(rangeKey)
	tt := in.Type().(*types.Tuple)
	if rk.Kind == "string" {
		tv := ov.V.(*TupleVal)
		str := tv.E[0].(*StrVal)
		taint := tv.E[1].(*Term)
		pos := rk.Pos
		if pos >= len(str.B) {
			return &TupleVal{E: []Value{tb.False, tb.Int64(0), tb.BV(32, 0)}}, true
		}
		ok := tb.ULt(tb.Int64(int64(pos)), str.Len)
		b := str.B[pos]
		nonASCII := tb.Not(tb.ULt(b, tb.BV(8, 128)))
		// continuing an iteration after a non-ASCII byte leaves the exact domain
		x.oblige(s, "escape", "range over string continues past a non-ASCII byte", tb.AndN(s.G, ok, taint))
		r := tb.Ite(nonASCII, tb.BV(32, 0xFFFD), tb.ZExt(b, 32))
		// the iterator register is updated in place (iterators are single-use values)
		x.set(f, in.Iter, &OpaqueVal{Kind: "range", X: rangeKey{"string", pos + 1},
			V: &TupleVal{E: []Value{str, tb.Or(taint, tb.And(ok, nonASCII))}}})
		return &TupleVal{E: []Value{ok, tb.Int64(int64(pos)), r}}, true
	}
	// map: the iterator value holds the entries not yet visited (so that iterators of sibling
	// states merge entry-wise whatever they skipped)
	mo := ov.V.(*MapObj)
	// components the program never extracts have an invalid type: keep them uniform
	fix := func(tv *TupleVal) *TupleVal {
		for i := 1; i <= 2; i++ {
			if b, ok := tt.At(i).Type().(*types.Basic); ok && b.Kind() == types.Invalid {
				tv.E[i] = tb.False
			}
		}
		return tv
	}
	var rest []MapEntry
	for _, e := range mo.Entries {
		if !e.Present.IsFalse() {
			rest = append(rest, e)
		}
	}
	if len(rest) == 0 {
		x.set(f, in.Iter, &OpaqueVal{Kind: "range", X: rangeKey{"map", 0}, V: &MapObj{KT: mo.KT, VT: mo.VT}})
		return fix(&TupleVal{E: []Value{tb.False, x.zero(tt.At(1).Type()), x.zero(tt.At(2).Type())}}), true
	}
	e := rest[0]
	if e.Present.IsTrue() {
		x.set(f, in.Iter, &OpaqueVal{Kind: "range", X: rangeKey{"map", 0}, V: &MapObj{Entries: rest[1:], KT: mo.KT, VT: mo.VT}})
		return fix(&TupleVal{E: []Value{tb.True, e.Key, e.Val}}), true
	}
	// entries with symbolic presence: yield the first present entry and consume it
	okAny := tb.False
	var k, v Value
	for i := len(rest) - 1; i >= 0; i-- {
		ei := rest[i]
		okAny = tb.Or(okAny, ei.Present)
		if k == nil {
			k, v = ei.Key, ei.Val
		} else {
			k = x.ite(ei.Present, ei.Key, k)
			v = x.ite(ei.Present, ei.Val, v)
		}
	}
	ne := make([]MapEntry, len(rest))
	copy(ne, rest)
	seen := tb.False
	for i := range ne {
		first := tb.And(ne[i].Present, tb.Not(seen))
		seen = tb.Or(seen, ne[i].Present)
		ne[i].Present = tb.And(ne[i].Present, tb.Not(first))
	}
	x.set(f, in.Iter, &OpaqueVal{Kind: "range", X: rangeKey{"map", 0}, V: &MapObj{Entries: ne, KT: mo.KT, VT: mo.VT}})
	return fix(&TupleVal{E: []Value{okAny, k, v}}), true
}

// ---------- type assertions ----------

func (x *Exec) implements(t types.Type, it *types.Interface) bool {
	return types.Implements(t, it)
}

func (x *Exec) typeAssert(s *State, f *Frame, in *ssa.TypeAssert) (Value, bool) {
	tb := x.tb
	iv := x.val(s, f, in.X).(*IfaceVal)
	at := in.AssertedType
	_, toIface := at.Underlying().(*types.Interface)
	okG := tb.False
	var res Value
	for _, a := range iv.Alts {
		if a.T == nil || a.G.IsFalse() {
			continue
		}
		var match bool
		if toIface {
			match = types.Implements(a.T, at.Underlying().(*types.Interface))
		} else {
			match = types.Identical(a.T, at)
		}
		if !match {
			continue
		}
		okG = tb.Or(okG, a.G)
		var v Value
		if toIface {
			v = &IfaceVal{Alts: []IfaceAlt{{G: tb.True, T: a.T, V: a.V}}}
		} else {
			v = a.V
		}
		if res == nil {
			res = v
		} else {
			res = x.ite(a.G, v, res)
		}
	}
	if res == nil {
		res = x.zero(at)
	}
	if in.CommaOk {
		if !okG.IsTrue() {
			res = x.ite(okG, res, x.zero(at))
		}
		return &TupleVal{E: []Value{res, okG}}, true
	}
	if !x.panicIf(s, tb.Not(okG), "interface conversion: type assertion failed") {
		return nil, false
	}
	return res, true
}

// clampSub returns hi-lo for checked bounds lo <= hi, with the range hi.Hi-lo.Lo recorded.
func (x *Exec) clampSub(hi, lo *Term) *Term {
	mx := hi.Hi
	if lo.Lo <= mx {
		mx -= lo.Lo
	} else {
		mx = 0
	}
	return x.tb.ClampU(x.tb.Sub(hi, lo), mx)
}

// clampSubMax is clampSub with the additional checked bound hi <= limit.
func (x *Exec) clampSubMax(hi, lo *Term, limit uint64) *Term {
	mx := min64(hi.Hi, limit)
	if lo.Lo <= mx {
		mx -= lo.Lo
	} else {
		mx = 0
	}
	return x.tb.ClampU(x.tb.Sub(hi, lo), mx)
}
