package sx

import (
	"net"
	"regexp"
	"strings"
)

// ---- sync primitives (model state lives in fields of the real structs) ----
// Mutex:    field 0 (state int32)      = 1 when locked
// RWMutex:  field 1 (writerSem uint32) = 1 when write-locked; field 2 (readerSem uint32) = readers
// WaitGroup: field 2 (sema uint32)     = counter

func (x *Exec) cellGet(s *State, p *PtrVal, field int) *Term {
	fa, ok := x.fieldAddr(s, p, field)
	if !ok {
		return x.tb.BV(32, 0)
	}
	v, ok := x.load(s, fa.(*PtrVal), nil)
	if !ok {
		return x.tb.BV(32, 0)
	}
	return v.(*Term)
}

func (x *Exec) cellSet(s *State, p *PtrVal, field int, v *Term) {
	fa, ok := x.fieldAddr(s, p, field)
	if !ok {
		return
	}
	x.store(s, fa.(*PtrVal), v)
}

func (x *Exec) objID(p *PtrVal) int {
	for _, a := range p.Alts {
		if a.Obj != 0 && !a.G.IsFalse() {
			return a.Obj*1000 + len(a.Path)*10 + func() int {
				if len(a.Path) > 0 {
					return a.Path[len(a.Path)-1]
				}
				return 0
			}()
		}
	}
	return 0
}

// acquire blocks (or forks into a blocked and a proceeding state) while busy holds.
func (x *Exec) acquire(s *State, busy *Term, kind string, id int) (blocked bool) {
	if busy.IsTrue() {
		x.block(s, kind, id)
		return true
	}
	if !busy.IsFalse() {
		bs := s.clone()
		if x.constrain(bs, busy) {
			x.block(bs, kind, id)
		}
		if !x.constrain(s, x.tb.Not(busy)) {
			return true
		}
	}
	return false
}

func init() {
	one, zero := func(x *Exec) *Term { return x.tb.BV(32, 1) }, func(x *Exec) *Term { return x.tb.BV(32, 0) }
	blockingIntrinsics["(*sync.Mutex).Lock"] = func(x *Exec, s *State, c *CallCtx) (Value, bool) {
		x.maybePreempt(s)
		p := c.Args[0].(*PtrVal)
		held := x.tb.Not(x.tb.Eq(x.cellGet(s, p, 0), zero(x)))
		if x.acquire(s, held, "lock", x.objID(p)) {
			return nil, true
		}
		x.cellSet(s, p, 0, one(x))
		return nil, false
	}
	RegisterIntrinsic("(*sync.Mutex).TryLock", func(x *Exec, s *State, c *CallCtx) Value {
		p := c.Args[0].(*PtrVal)
		free := x.tb.Eq(x.cellGet(s, p, 0), zero(x))
		x.cellSet(s, p, 0, one(x))
		return free
	})
	RegisterIntrinsic("(*sync.Mutex).Unlock", func(x *Exec, s *State, c *CallCtx) Value {
		p := c.Args[0].(*PtrVal)
		if !x.panicIf(s, x.tb.Eq(x.cellGet(s, p, 0), zero(x)), "sync: unlock of unlocked mutex") {
			return nil
		}
		x.cellSet(s, p, 0, zero(x))
		x.wake(s, x.objID(p))
		return nil
	})
	blockingIntrinsics["(*sync.RWMutex).Lock"] = func(x *Exec, s *State, c *CallCtx) (Value, bool) {
		x.maybePreempt(s)
		p := c.Args[0].(*PtrVal)
		busy := x.tb.Or(x.tb.Not(x.tb.Eq(x.cellGet(s, p, 1), zero(x))), x.tb.Not(x.tb.Eq(x.cellGet(s, p, 2), zero(x))))
		if x.acquire(s, busy, "lock", x.objID(p)) {
			return nil, true
		}
		x.cellSet(s, p, 1, one(x))
		return nil, false
	}
	// TryLock / TryRLock never block; they are scheduling points like Lock / RLock. The state of the
	// lock must be concrete here (it is in every harness: locks are taken on concrete paths).
	blockingIntrinsics["(*sync.RWMutex).TryLock"] = func(x *Exec, s *State, c *CallCtx) (Value, bool) {
		x.maybePreempt(s)
		p := c.Args[0].(*PtrVal)
		busy := x.tb.Or(x.tb.Not(x.tb.Eq(x.cellGet(s, p, 1), zero(x))), x.tb.Not(x.tb.Eq(x.cellGet(s, p, 2), zero(x))))
		x.cellSet(s, p, 1, x.tb.Ite(busy, x.cellGet(s, p, 1), one(x)))
		return x.tb.Not(busy), false
	}
	blockingIntrinsics["(*sync.RWMutex).TryRLock"] = func(x *Exec, s *State, c *CallCtx) (Value, bool) {
		x.maybePreempt(s)
		p := c.Args[0].(*PtrVal)
		busy := x.tb.Not(x.tb.Eq(x.cellGet(s, p, 1), zero(x)))
		x.cellSet(s, p, 2, x.tb.Ite(busy, x.cellGet(s, p, 2), x.tb.Add(x.cellGet(s, p, 2), one(x))))
		return x.tb.Not(busy), false
	}
	RegisterIntrinsic("(*sync.RWMutex).Unlock", func(x *Exec, s *State, c *CallCtx) Value {
		p := c.Args[0].(*PtrVal)
		if !x.panicIf(s, x.tb.Eq(x.cellGet(s, p, 1), zero(x)), "sync: Unlock of unlocked RWMutex") {
			return nil
		}
		x.cellSet(s, p, 1, zero(x))
		x.wake(s, x.objID(p))
		return nil
	})
	blockingIntrinsics["(*sync.RWMutex).RLock"] = func(x *Exec, s *State, c *CallCtx) (Value, bool) {
		x.maybePreempt(s)
		p := c.Args[0].(*PtrVal)
		busy := x.tb.Not(x.tb.Eq(x.cellGet(s, p, 1), zero(x)))
		if x.acquire(s, busy, "rlock", x.objID(p)) {
			return nil, true
		}
		x.cellSet(s, p, 2, x.tb.Add(x.cellGet(s, p, 2), one(x)))
		return nil, false
	}
	RegisterIntrinsic("(*sync.RWMutex).RUnlock", func(x *Exec, s *State, c *CallCtx) Value {
		p := c.Args[0].(*PtrVal)
		if !x.panicIf(s, x.tb.Eq(x.cellGet(s, p, 2), zero(x)), "sync: RUnlock of unlocked RWMutex") {
			return nil
		}
		x.cellSet(s, p, 2, x.tb.Sub(x.cellGet(s, p, 2), one(x)))
		x.wake(s, x.objID(p))
		return nil
	})
	RegisterIntrinsic("(*sync.WaitGroup).Add", func(x *Exec, s *State, c *CallCtx) Value {
		p := c.Args[0].(*PtrVal)
		d := x.tb.Extract(c.Args[1].(*Term), 31, 0)
		n := x.tb.Add(x.cellGet(s, p, 2), d)
		if !x.panicIf(s, x.tb.SLt(n, zero(x)), "sync: negative WaitGroup counter") {
			return nil
		}
		x.cellSet(s, p, 2, n)
		x.wake(s, x.objID(p))
		return nil
	})
	RegisterIntrinsic("(*sync.WaitGroup).Done", func(x *Exec, s *State, c *CallCtx) Value {
		p := c.Args[0].(*PtrVal)
		n := x.tb.Sub(x.cellGet(s, p, 2), one(x))
		if !x.panicIf(s, x.tb.SLt(n, zero(x)), "sync: negative WaitGroup counter") {
			return nil
		}
		x.cellSet(s, p, 2, n)
		x.wake(s, x.objID(p))
		return nil
	})
	blockingIntrinsics["(*sync.WaitGroup).Wait"] = func(x *Exec, s *State, c *CallCtx) (Value, bool) {
		p := c.Args[0].(*PtrVal)
		busy := x.tb.Not(x.tb.Eq(x.cellGet(s, p, 2), zero(x)))
		if x.acquire(s, busy, "wg", x.objID(p)) {
			return nil, true
		}
		return nil, false
	}

	// sync.Once: done flag at Once.done.v (field 0, field 1)
	RegisterIntrinsic("(*sync.Once).Do", func(x *Exec, s *State, c *CallCtx) Value {
		p := c.Args[0].(*PtrVal)
		d0, ok := x.fieldAddr(s, p, 0)
		if !ok {
			return nil
		}
		d1, ok := x.fieldAddr(s, d0.(*PtrVal), 1)
		if !ok {
			return nil
		}
		v, ok := x.load(s, d1.(*PtrVal), nil)
		if !ok {
			return nil
		}
		done := x.tb.Not(x.tb.Eq(v.(*Term), x.tb.BV(32, 0)))
		if done.IsTrue() {
			return nil
		}
		if !done.IsFalse() {
			// already done on some merged paths: those continue without calling f
			ds := s.clone()
			if x.constrain(ds, done) {
				df := ds.top()
				df.PC++
				x.push(ds)
			}
			if !x.constrain(s, x.tb.Not(done)) {
				return nil
			}
		}
		x.store(s, d1.(*PtrVal), x.tb.BV(32, 1))
		fv := c.Args[1].(*FuncVal)
		var live []FuncAlt
		for _, a := range fv.Alts {
			if a.Fn != nil && !a.G.IsFalse() {
				live = append(live, a)
			}
		}
		if len(live) != 1 {
			x.fail("sync.Once.Do with %d function targets", len(live))
		}
		// the frame of f runs before the caller continues (the caller's pc is advanced by the
		// call machinery after this intrinsic returns)
		x.pushFrame(s, live[0].Fn, nil, live[0].Bindings, nil)
		return nil
	})

	// ---- regexp: exact on concrete subjects (the compiled real regexp is used) ----
	RegisterIntrinsic("regexp.MustCompile", func(x *Exec, s *State, c *CallCtx) Value {
		pat, ok := x.concreteStr(c.Args[0].(*StrVal))
		if !ok {
			x.fail("regexp.MustCompile of a symbolic pattern")
		}
		re := regexp.MustCompile(pat)
		id := x.newObj(&OpaqueVal{Kind: "regexp", X: re}, s)
		return x.ptrTo(id)
	})
	reOf := func(x *Exec, s *State, v Value) *regexp.Regexp {
		p := v.(*PtrVal)
		if len(p.Alts) != 1 || p.Alts[0].Obj == 0 {
			x.fail("regexp receiver is not a single object")
		}
		return s.Heap[p.Alts[0].Obj].(*OpaqueVal).X.(*regexp.Regexp)
	}
	strSlice := func(x *Exec, s *State, ss []string) Value {
		if ss == nil {
			return &SliceVal{Ptr: x.nilPtr(), Len: x.i64(0), Cap: x.i64(0)}
		}
		arr := &ArrayVal{E: make([]Value, len(ss))}
		for i, e := range ss {
			arr.E[i] = x.str(e)
		}
		id := x.newObj(arr, s)
		return &SliceVal{Ptr: x.ptrTo(id, 0), Len: x.i64(len(ss)), Cap: x.i64(len(ss))}
	}
	// representative: a concrete stand-in for a subject whose symbolic bytes are all known digits
	representative := func(x *Exec, re *regexp.Regexp, sv *StrVal) (string, bool) {
		if !sv.Len.IsConst() || (sv.Opaque != nil && !sv.Opaque.IsFalse()) {
			return "", false
		}
		if strings.ContainsAny(re.String(), "0123456789") {
			return "", false
		}
		out := make([]byte, sv.Len.K)
		for i := range out {
			b := sv.B[i]
			switch {
			case b.IsConst():
				out[i] = byte(b.K)
			case b.Lo >= '0' && b.Hi <= '9':
				out[i] = '7'
			default:
				return "", false
			}
		}
		return string(out), true
	}
	symSlice := func(x *Exec, s *State, sv *StrVal, idx []int) Value {
		n := len(idx) / 2
		arr := &ArrayVal{E: make([]Value, n)}
		for i := 0; i < n; i++ {
			if idx[2*i] < 0 {
				arr.E[i] = x.str("")
			} else {
				arr.E[i] = &StrVal{B: sv.B[idx[2*i]:idx[2*i+1]], Len: x.i64(idx[2*i+1] - idx[2*i])}
			}
		}
		id := x.newObj(arr, s)
		return &SliceVal{Ptr: x.ptrTo(id, 0), Len: x.i64(n), Cap: x.i64(n)}
	}
	RegisterIntrinsic("(*regexp.Regexp).FindStringSubmatch", func(x *Exec, s *State, c *CallCtx) Value {
		subj, ok := x.concreteStr(c.Args[1].(*StrVal))
		if !ok {
			if rep, ok2 := representative(x, reOf(x, s, c.Args[0]), c.Args[1].(*StrVal)); ok2 {
				idx := reOf(x, s, c.Args[0]).FindStringSubmatchIndex(rep)
				if idx == nil {
					return &SliceVal{Ptr: x.nilPtr(), Len: x.i64(0), Cap: x.i64(0)}
				}
				return symSlice(x, s, c.Args[1].(*StrVal), idx)
			}
		}
		if !ok {
			sv := c.Args[1].(*StrVal)
			showDepth = 9
			d := "len=" + x.tb.Show(sv.Len)
			for i, b := range sv.B {
				if i < 12 {
					d += " " + x.tb.Show(b)
				}
			}
			x.fail("regexp.FindStringSubmatch on a symbolic subject (outside the encoding: use concrete menu lines): tags=%v %s at %s", s.Tags, d[:1800], x.posOf(s))
		}
		return strSlice(x, s, reOf(x, s, c.Args[0]).FindStringSubmatch(subj))
	})
	RegisterIntrinsic("(*regexp.Regexp).FindAllStringSubmatch", func(x *Exec, s *State, c *CallCtx) Value {
		subj, ok := x.concreteStr(c.Args[1].(*StrVal))
		if !ok {
			if rep, ok2 := representative(x, reOf(x, s, c.Args[0]), c.Args[1].(*StrVal)); ok2 {
				all := reOf(x, s, c.Args[0]).FindAllStringSubmatchIndex(rep, int(c.Args[2].(*Term).SVal()))
				if all == nil {
					return &SliceVal{Ptr: x.nilPtr(), Len: x.i64(0), Cap: x.i64(0)}
				}
				arr := &ArrayVal{E: make([]Value, len(all))}
				for i, idx := range all {
					arr.E[i] = symSlice(x, s, c.Args[1].(*StrVal), idx)
				}
				id := x.newObj(arr, s)
				return &SliceVal{Ptr: x.ptrTo(id, 0), Len: x.i64(len(all)), Cap: x.i64(len(all))}
			}
			x.fail("regexp.FindAllStringSubmatch on a symbolic subject")
		}
		n := int(c.Args[2].(*Term).SVal())
		res := reOf(x, s, c.Args[0]).FindAllStringSubmatch(subj, n)
		if res == nil {
			return &SliceVal{Ptr: x.nilPtr(), Len: x.i64(0), Cap: x.i64(0)}
		}
		arr := &ArrayVal{E: make([]Value, len(res))}
		for i, e := range res {
			arr.E[i] = strSlice(x, s, e)
		}
		id := x.newObj(arr, s)
		return &SliceVal{Ptr: x.ptrTo(id, 0), Len: x.i64(len(res)), Cap: x.i64(len(res))}
	})
	RegisterIntrinsic("(*regexp.Regexp).ReplaceAllStringFunc", func(x *Exec, s *State, c *CallCtx) Value {
		subj, ok := x.concreteStr(c.Args[1].(*StrVal))
		if !ok {
			x.fail("regexp.ReplaceAllStringFunc on a symbolic subject")
		}
		if reOf(x, s, c.Args[0]).FindStringIndex(subj) != nil {
			x.fail("regexp.ReplaceAllStringFunc with matches (callback not modelled)")
		}
		return c.Args[1]
	})
	RegisterIntrinsic("strings.NewReplacer", func(x *Exec, s *State, c *CallCtx) Value {
		var pairs []string
		for _, a := range x.variadicArgs(s, c.Args[0]) {
			p, ok := x.concreteStr(a.(*StrVal))
			if !ok {
				x.fail("strings.NewReplacer with symbolic pairs")
			}
			pairs = append(pairs, p)
		}
		id := x.newObj(&OpaqueVal{Kind: "replacer", X: strings.Join(pairs, "\x00")}, s)
		return x.ptrTo(id)
	})
	RegisterIntrinsic("(*strings.Replacer).Replace", func(x *Exec, s *State, c *CallCtx) Value {
		p := c.Args[0].(*PtrVal)
		pairs := strings.Split(s.Heap[p.Alts[0].Obj].(*OpaqueVal).X.(string), "\x00")
		subj, ok := x.concreteStr(c.Args[1].(*StrVal))
		if !ok {
			x.fail("strings.Replacer.Replace on a symbolic subject")
		}
		return x.str(strings.NewReplacer(pairs...).Replace(subj))
	})
	RegisterIntrinsic("(*regexp.Regexp).MatchString", func(x *Exec, s *State, c *CallCtx) Value {
		subj, ok := x.concreteStr(c.Args[1].(*StrVal))
		if !ok {
			x.fail("regexp.MatchString on a symbolic subject")
		}
		return x.tb.Bool(reOf(x, s, c.Args[0]).MatchString(subj))
	})

	RegisterIntrinsic("net.SplitHostPort", func(x *Exec, s *State, c *CallCtx) Value {
		hp, ok := x.concreteStr(c.Args[0].(*StrVal))
		if !ok {
			x.fail("net.SplitHostPort on a symbolic string")
		}
		h, p, err := net.SplitHostPort(hp)
		var ev Value = x.zero(errorType)
		if err != nil {
			ev = x.newError(s, x.str(err.Error()))
		}
		return &TupleVal{E: []Value{x.str(h), x.str(p), ev}}
	})
	RegisterIntrinsic("os.Getpid", func(x *Exec, s *State, c *CallCtx) Value { return x.tb.Int64(4242) })
}

// clockRead returns a fresh symbolic clock reading (nanoseconds since the Unix epoch),
// non-decreasing across reads and inside a sane range.
func (x *Exec) clockRead() *Term {
	tb := x.tb
	v := tb.Var(x.freshName("clock"), 64)
	lo, hi := tb.Int64(1000000000*1000000000), tb.Int64(4000000000*1000000000) // ns: 2001 .. 2096
	x.Assumptions = append(x.Assumptions, tb.SLe(lo, v), tb.SLe(v, hi))
	if x.lastClock != nil {
		x.Assumptions = append(x.Assumptions, tb.SLe(x.lastClock, v))
	}
	x.lastClock = v
	return v
}
