package sx

import (
	"fmt"
	"go/types"
)

// ---- bytes.Buffer / strings.Builder: field 0 of the struct holds the content as a StrVal ----

// bufField is the struct field that holds the modelled content: bytes.Buffer.buf (field 0) or
// strings.Builder.buf (field 1; field 0 is the self pointer). Both are []byte fields.

func (x *Exec) bufGet(s *State, p *PtrVal) *StrVal {
	fa, ok := x.fieldAddr(s, p, x.bufFieldIdx)
	if !ok {
		return x.str("")
	}
	v, ok := x.load(s, fa.(*PtrVal), nil)
	if !ok {
		return x.str("")
	}
	if sv, ok := v.(*StrVal); ok {
		return sv
	}
	return x.str("")
}

func (x *Exec) bufSet(s *State, p *PtrVal, v *StrVal) {
	fa, ok := x.fieldAddr(s, p, x.bufFieldIdx)
	if !ok {
		return
	}
	// the zero value in field 0 is a nil slice / nil pointer; replace wholesale
	pv := fa.(*PtrVal)
	for _, a := range pv.Alts {
		if a.Obj == 0 {
			continue
		}
		obj := s.Heap[a.Obj]
		old := getPath(obj, a.Path)
		var nv Value = v
		if !a.G.IsTrue() && len(pv.Alts) > 1 {
			if osv, ok := old.(*StrVal); ok {
				nv = x.ite(a.G, v, osv)
			} else {
				nv = x.ite(a.G, v, x.str(""))
			}
		}
		s.Heap[a.Obj] = setPath(obj, a.Path, nv)
	}
}

func (x *Exec) bytesToStr(s *State, v Value) *StrVal {
	switch c := v.(type) {
	case *StrVal:
		return c
	case *SliceVal:
		if c.Len.IsConst() && c.Len.K == 0 {
			return x.str("")
		}
		if x.isLenOnlySlice(s, c) {
			return &StrVal{Len: c.Len, LenOnly: true}
		}
		el, _ := x.sliceElems(s, c)
		out := &StrVal{B: make([]*Term, len(el)), Len: c.Len}
		for i, e := range el {
			out.B[i] = e.(*Term)
		}
		return out
	}
	x.fail("bytesToStr of %T", v)
	return nil
}

// isLenOnlySlice: the slice was created by zzvrf.LenOnly (empty backing array, symbolic length).
func (x *Exec) isLenOnlySlice(s *State, c *SliceVal) bool {
	if c.Len.IsConst() && c.Len.K == 0 {
		return false
	}
	seen := false
	for _, a := range c.Ptr.Alts {
		if a.Obj == 0 || a.G.IsFalse() {
			continue
		}
		arr, ok := getPath(s.Heap[a.Obj], a.Path[:len(a.Path)-1]).(*ArrayVal)
		if !ok || len(arr.E) != 0 {
			return false
		}
		seen = true
	}
	return seen
}

func (x *Exec) strToBytes(s *State, sv *StrVal) *SliceVal {
	if sv.LenOnly {
		id := x.newObj(&ArrayVal{E: []Value{}}, s)
		return &SliceVal{Ptr: x.ptrTo(id, 0), Len: sv.Len, Cap: sv.Len}
	}
	arr := &ArrayVal{E: make([]Value, len(sv.B))}
	for i := range arr.E {
		arr.E[i] = sv.B[i]
	}
	id := x.newObj(arr, s)
	return &SliceVal{Ptr: x.ptrTo(id, 0), Len: sv.Len, Cap: x.i64(len(sv.B))}
}

func nilErr(x *Exec) Value { return x.zero(errorType) }

func init() {
	for ri, recv := range []string{"(*bytes.Buffer)", "(*strings.Builder)"} {
		r := recv
		fieldIdx := ri // bytes.Buffer: 0, strings.Builder: 1
		wrap := func(f Intrinsic) Intrinsic {
			return func(x *Exec, s *State, c *CallCtx) Value {
				old := x.bufFieldIdx
				x.bufFieldIdx = fieldIdx
				defer func() { x.bufFieldIdx = old }()
				return f(x, s, c)
			}
		}
		_ = wrap
		RegisterIntrinsic(r+".WriteByte", wrap(func(x *Exec, s *State, c *CallCtx) Value {
			p := c.Args[0].(*PtrVal)
			cur := x.bufGet(s, p)
			x.bufSet(s, p, x.strConcat(cur, &StrVal{B: []*Term{c.Args[1].(*Term)}, Len: x.tb.Int64(1)}))
			return nilErr(x)
		}))
		RegisterIntrinsic(r+".WriteString", wrap(func(x *Exec, s *State, c *CallCtx) Value {
			p := c.Args[0].(*PtrVal)
			a := c.Args[1].(*StrVal)
			x.bufSet(s, p, x.strConcat(x.bufGet(s, p), a))
			return &TupleVal{E: []Value{a.Len, nilErr(x)}}
		}))
		RegisterIntrinsic(r+".Write", wrap(func(x *Exec, s *State, c *CallCtx) Value {
			p := c.Args[0].(*PtrVal)
			a := x.bytesToStr(s, c.Args[1])
			x.bufSet(s, p, x.strConcat(x.bufGet(s, p), a))
			return &TupleVal{E: []Value{a.Len, nilErr(x)}}
		}))
		RegisterIntrinsic(r+".WriteRune", wrap(func(x *Exec, s *State, c *CallCtx) Value {
			p := c.Args[0].(*PtrVal)
			rn := c.Args[1].(*Term)
			x.oblige(s, "escape", "WriteRune of a non-ASCII rune", x.tb.And(s.G, x.tb.Not(x.tb.ULt(rn, x.tb.BV(32, 128)))))
			x.bufSet(s, p, x.strConcat(x.bufGet(s, p), &StrVal{B: []*Term{x.tb.Extract(rn, 7, 0)}, Len: x.tb.Int64(1)}))
			return &TupleVal{E: []Value{x.tb.Int64(1), nilErr(x)}}
		}))
		RegisterIntrinsic(r+".String", wrap(func(x *Exec, s *State, c *CallCtx) Value {
			p := c.Args[0].(*PtrVal)
			if nl := x.ptrIsNil(p); nl.IsTrue() {
				return x.str("<nil>")
			}
			return x.bufGet(s, p)
		}))
		RegisterIntrinsic(r+".Len", wrap(func(x *Exec, s *State, c *CallCtx) Value {
			return x.bufGet(s, c.Args[0].(*PtrVal)).Len
		}))
		RegisterIntrinsic(r+".Reset", wrap(func(x *Exec, s *State, c *CallCtx) Value {
			x.bufSet(s, c.Args[0].(*PtrVal), x.str(""))
			return nil
		}))
		RegisterIntrinsic(r+".Grow", wrap(func(x *Exec, s *State, c *CallCtx) Value { return nil }))
	}
	// ReadFrom: everything the reader still has is appended (reader shapes of readAllFrom)
	RegisterIntrinsic("(*bytes.Buffer).ReadFrom", func(x *Exec, s *State, c *CallCtx) Value {
		p := c.Args[0].(*PtrVal)
		sv, ok := x.readAllFrom(s, c.Args[1])
		if !ok {
			x.fail("bytes.Buffer.ReadFrom on a reader the engine cannot see through: %s", x.showVal(c.Args[1]))
		}
		old := x.bufFieldIdx
		x.bufFieldIdx = 0
		x.bufSet(s, p, x.strConcat(x.bufGet(s, p), sv))
		x.bufFieldIdx = old
		return &TupleVal{E: []Value{sv.Len, nilErr(x)}}
	})
	RegisterIntrinsic("(*bytes.Buffer).Bytes", func(x *Exec, s *State, c *CallCtx) Value {
		return x.strToBytes(s, x.bufGet(s, c.Args[0].(*PtrVal)))
	})
	RegisterIntrinsic("bytes.NewBuffer", func(x *Exec, s *State, c *CallCtx) Value {
		pt := c.RT.(*types.Pointer)
		id := x.newObj(x.zero(pt.Elem()), s)
		p := x.ptrTo(id)
		x.bufSet(s, p, x.bytesToStr(s, c.Args[0]))
		return p
	})
	RegisterIntrinsic("bytes.NewBufferString", func(x *Exec, s *State, c *CallCtx) Value {
		pt := c.RT.(*types.Pointer)
		id := x.newObj(x.zero(pt.Elem()), s)
		p := x.ptrTo(id)
		x.bufSet(s, p, c.Args[0].(*StrVal))
		return p
	})

	RegisterIntrinsic("io.ReadAll", func(x *Exec, s *State, c *CallCtx) Value {
		sv, ok := x.readAllFrom(s, c.Args[0])
		if !ok {
			x.fail("io.ReadAll on a reader the engine cannot see through: %s", x.showVal(c.Args[0]))
		}
		return &TupleVal{E: []Value{x.strToBytes(s, sv), nilErr(x)}}
	})
	// helpers for Go-written models that must work on slices of any element type
	RegisterIntrinsic(VrfPkg+".LenOf", func(x *Exec, s *State, c *CallCtx) Value {
		iv := c.Args[0].(*IfaceVal)
		for _, a := range iv.Alts {
			if a.T != nil {
				return a.V.(*SliceVal).Len
			}
		}
		return x.tb.Int64(0)
	})
	RegisterIntrinsic(VrfPkg+".SwapElems", func(x *Exec, s *State, c *CallCtx) Value {
		iv := c.Args[0].(*IfaceVal)
		i, j := c.Args[1].(*Term), c.Args[2].(*Term)
		for _, a := range iv.Alts {
			if a.T == nil {
				continue
			}
			sl := a.V.(*SliceVal)
			pi, ok1 := x.indexAddr(s, sl, i)
			pj, ok2 := x.indexAddr(s, sl, j)
			if !ok1 || !ok2 {
				return nil
			}
			vi, _ := x.load(s, pi.(*PtrVal), nil)
			vj, _ := x.load(s, pj.(*PtrVal), nil)
			x.store(s, pi.(*PtrVal), vj)
			x.store(s, pj.(*PtrVal), vi)
		}
		return nil
	})
	// net.ParseIP: uninterpreted function of its argument; only nil-ness of the result is modelled
	RegisterIntrinsic("net.ParseIP", func(x *Exec, s *State, c *CallCtx) Value {
		arg := c.Args[0].(*StrVal)
		// the result's nil-ness is invariant under ASCII case folding (hex digits only), so the
		// function is applied to the folded argument; a non-nil result needs >= 2 bytes, all of
		// them hex digits, ':' or '.' (necessary conditions of the real parser)
		b := x.ufBool("net.ParseIP", x.strMapBytes(arg, func(t *Term) *Term {
			up := x.tb.And(x.tb.ULe(x.tb.BV(8, 'A'), t), x.tb.ULe(t, x.tb.BV(8, 'Z')))
			return x.tb.Ite(up, x.tb.Add(t, x.tb.BV(8, 32)), t)
		}))
		nec := x.tb.ULe(x.tb.Int64(2), arg.Len)
		for i := 0; i < x.maxLen(arg); i++ {
			ch := arg.B[i]
			okc := x.tb.OrN(
				x.tb.And(x.tb.ULe(x.tb.BV(8, '0'), ch), x.tb.ULe(ch, x.tb.BV(8, '9'))),
				x.tb.And(x.tb.ULe(x.tb.BV(8, 'a'), ch), x.tb.ULe(ch, x.tb.BV(8, 'f'))),
				x.tb.And(x.tb.ULe(x.tb.BV(8, 'A'), ch), x.tb.ULe(ch, x.tb.BV(8, 'F'))),
				x.tb.Eq(ch, x.tb.BV(8, ':')), x.tb.Eq(ch, x.tb.BV(8, '.')))
			nec = x.tb.And(nec, x.tb.Implies(x.tb.ULt(x.i64(i), arg.Len), okc))
		}
		// further necessary conditions of the real parser (RFC 4291 text forms): dots come as the
		// three dots of one dotted quad; text without "::" needs seven colons (>= 15 bytes) or, with
		// a dotted quad at its end, six (>= 19 bytes), or no colon at all (pure IPv4, >= 7 bytes);
		// three colons in a row never parse
		hasDot, hasColon, hasDbl, hasTriple := x.tb.False, x.tb.False, x.tb.False, x.tb.False
		dots := x.tb.BV(8, 0)
		for i := 0; i < x.maxLen(arg); i++ {
			in := x.tb.ULt(x.i64(i), arg.Len)
			isDot := x.tb.And(in, x.tb.Eq(arg.B[i], x.tb.BV(8, '.')))
			hasDot = x.tb.Or(hasDot, isDot)
			dots = x.tb.Add(dots, x.tb.Ite(isDot, x.tb.BV(8, 1), x.tb.BV(8, 0)))
			hasColon = x.tb.Or(hasColon, x.tb.And(in, x.tb.Eq(arg.B[i], x.tb.BV(8, ':'))))
			if i+1 < x.maxLen(arg) {
				in2 := x.tb.ULt(x.i64(i+1), arg.Len)
				dbl := x.tb.And(in2, x.tb.And(x.tb.Eq(arg.B[i], x.tb.BV(8, ':')), x.tb.Eq(arg.B[i+1], x.tb.BV(8, ':'))))
				hasDbl = x.tb.Or(hasDbl, dbl)
				if i+2 < x.maxLen(arg) {
					in3 := x.tb.ULt(x.i64(i+2), arg.Len)
					hasTriple = x.tb.Or(hasTriple, x.tb.And(dbl, x.tb.And(in3, x.tb.Eq(arg.B[i+2], x.tb.BV(8, ':')))))
				}
			}
		}
		if x.maxLen(arg) < 250 {
			nec = x.tb.And(nec, x.tb.Implies(hasDot, x.tb.And(x.tb.Eq(dots, x.tb.BV(8, 3)), x.tb.ULe(x.tb.Int64(7), arg.Len))))
		}
		nec = x.tb.And(nec, x.tb.Implies(x.tb.And(hasColon, x.tb.Not(hasDbl)), x.tb.ULe(x.tb.Int64(15), arg.Len)))
		nec = x.tb.And(nec, x.tb.Implies(x.tb.And(hasColon, hasDot), x.tb.ULe(x.tb.Int64(9), arg.Len)))
		nec = x.tb.And(nec, x.tb.Or(hasColon, hasDot))
		nec = x.tb.And(nec, x.tb.Not(hasTriple))
		b = x.tb.And(b, nec)
		// non-nil result: a 16-byte slice of unconstrained content
		arr := &ArrayVal{E: make([]Value, 16)}
		nm := x.freshName("ip")
		for i := range arr.E {
			arr.E[i] = x.tb.Var(fmt.Sprintf("%s#%d", nm, i), 8)
		}
		id := x.newObj(arr, s)
		nonNil := &SliceVal{Ptr: x.ptrTo(id, 0), Len: x.i64(16), Cap: x.i64(16)}
		return x.ite(b, nonNil, x.zero(c.RT))
	})
}

// readAllFrom implements io.ReadAll for the reader shapes that occur: *zzvrf.ByteSource,
// *bytes.Reader, and io.NopCloser wrappers around them.
func (x *Exec) readAllFrom(s *State, v Value) (*StrVal, bool) {
	iv, ok := v.(*IfaceVal)
	if !ok {
		return nil, false
	}
	var live []IfaceAlt
	for _, a := range iv.Alts {
		if a.T != nil && !a.G.IsFalse() {
			live = append(live, a)
		}
	}
	if len(live) != 1 {
		return nil, false
	}
	a := live[0]
	name := a.T.String()
	switch {
	case name == "net/http.noBody":
		return x.str(""), true
	case name == "io.nopCloser" || name == "io.nopCloserWriterTo":
		return x.readAllFrom(s, a.V.(*StructVal).F[0])
	case name == "*io.multiReader":
		p := a.V.(*PtrVal)
		fa, _ := x.fieldAddr(s, p, 0)
		rv, _ := x.load(s, fa.(*PtrVal), nil)
		rs := rv.(*SliceVal)
		if !rs.Len.IsConst() {
			return nil, false
		}
		out := x.str("")
		if rs.Len.K > 0 {
			el, _ := x.sliceElems(s, rs)
			for _, e := range el {
				part, ok := x.readAllFrom(s, e)
				if !ok {
					return nil, false
				}
				out = x.strConcat(out, part)
			}
		}
		// everything has been consumed
		x.store(s, fa.(*PtrVal), &SliceVal{Ptr: x.nilPtr(), Len: x.i64(0), Cap: x.i64(0)})
		return out, true
	case name == "*io.LimitedReader":
		// at most N bytes of what the underlying reader still has
		p := a.V.(*PtrVal)
		ra, _ := x.fieldAddr(s, p, 0)
		rv, _ := x.load(s, ra.(*PtrVal), nil)
		na, _ := x.fieldAddr(s, p, 1)
		nv, _ := x.load(s, na.(*PtrVal), nil)
		all, ok := x.readAllFrom(s, rv)
		if !ok {
			return nil, false
		}
		n := nv.(*Term)
		neg := x.tb.SLt(n, x.tb.Int64(0))
		take := x.tb.Ite(neg, x.tb.Int64(0), x.tb.Ite(x.tb.ULt(n, all.Len), n, all.Len))
		x.store(s, na.(*PtrVal), x.tb.Sub(n, take))
		if all.LenOnly {
			return &StrVal{B: all.B, Len: take, LenOnly: true}, true
		}
		return x.strSlice(all, x.tb.Int64(0), take), true
	case name == "*strings.Reader":
		p := a.V.(*PtrVal)
		fa, _ := x.fieldAddr(s, p, 0)
		dv, _ := x.load(s, fa.(*PtrVal), nil)
		pa, _ := x.fieldAddr(s, p, 1)
		pv, _ := x.load(s, pa.(*PtrVal), nil)
		data := dv.(*StrVal)
		pos := pv.(*Term)
		rest := x.strSlice(data, x.tb.Ite(x.tb.ULe(pos, data.Len), pos, data.Len), data.Len)
		x.store(s, pa.(*PtrVal), data.Len)
		return rest, true
	case name == "*bytes.Reader" || name == "*"+VrfPkg+".ByteSource":
		p := a.V.(*PtrVal)
		fa, _ := x.fieldAddr(s, p, 0)
		dv, _ := x.load(s, fa.(*PtrVal), nil)
		pa, _ := x.fieldAddr(s, p, 1)
		pv, _ := x.load(s, pa.(*PtrVal), nil)
		data := x.bytesToStr(s, dv)
		pos := pv.(*Term)
		if data.LenOnly {
			// nothing of a length-only buffer has been consumed by the harness readers
			x.store(s, pa.(*PtrVal), data.Len)
			return data, true
		}
		rest := x.strSlice(data, x.tb.Ite(x.tb.ULe(pos, data.Len), pos, data.Len), data.Len)
		x.store(s, pa.(*PtrVal), data.Len)
		return rest, true
	}
	return nil, false
}

// ufBool returns the value of an uninterpreted boolean function applied to a string, adding the
// functional-consistency (Ackermann) constraints against earlier applications.
func (x *Exec) ufBool(name string, arg *StrVal) *Term {
	for _, app := range x.uf[name] {
		if x.sameKey(app.args[0], arg) {
			return app.res.(*Term)
		}
	}
	b := x.tb.Var(x.freshName("uf:"+name), 0)
	for _, app := range x.uf[name] {
		eq := x.strEq(app.args[0].(*StrVal), arg)
		x.Assumptions = append(x.Assumptions, x.tb.Implies(eq, x.tb.Eq(app.res.(*Term), b)))
	}
	x.uf[name] = append(x.uf[name], ufApp{args: []Value{arg}, res: b})
	return b
}
