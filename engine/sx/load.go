package sx

import (
	"fmt"
	"os"
	"path/filepath"
	"strings"

	"golang.org/x/tools/go/packages"
	"golang.org/x/tools/go/ssa"
	"golang.org/x/tools/go/ssa/ssautil"
)

// Program is a loaded and SSA-built view of /repo's working tree plus the overlay harnesses.
type Program struct {
	Prog *ssa.Program
	Pkgs map[string]*ssa.Package
	Repo string
}

const ModPath = "github.com/inbucket/inbucket/v3"

// GoEnv is the environment every go child process gets.
func GoEnv() []string {
	env := os.Environ()
	out := env[:0:0]
	for _, e := range env {
		if strings.HasPrefix(e, "GOFLAGS=") || strings.HasPrefix(e, "GOPROXY=") || strings.HasPrefix(e, "GOSUMDB=") ||
			strings.HasPrefix(e, "GOTOOLCHAIN=") || strings.HasPrefix(e, "GOMAXPROCS=") {
			continue
		}
		out = append(out, e)
	}
	return append(out, "GOFLAGS=-mod=mod -tags=verif", "GOPROXY=off", "GOSUMDB=off", "GOTOOLCHAIN=local", "GOMAXPROCS=8")
}

// BuildOverlay maps the harness directory tree onto /repo/pkg: harnessDir/<pkgpath>/*.go ->
// repo/pkg/<pkgpath>/<file>. Files ending in _test.go are skipped unless withTests.
func BuildOverlay(harnessDir, repo string, withTests bool) (map[string][]byte, error) {
	ov := map[string][]byte{}
	err := filepath.Walk(harnessDir, func(p string, info os.FileInfo, err error) error {
		if err != nil {
			return err
		}
		if info.IsDir() || !strings.HasSuffix(p, ".go") {
			return nil
		}
		if strings.HasSuffix(p, "_test.go") && !withTests {
			return nil
		}
		rel, _ := filepath.Rel(harnessDir, p)
		data, err := os.ReadFile(p)
		if err != nil {
			return err
		}
		ov[filepath.Join(repo, "pkg", rel)] = data
		return nil
	})
	return ov, err
}

// Load loads the given package patterns (relative to repo) with the overlay and builds SSA.
func Load(repo string, overlay map[string][]byte, patterns []string) (*Program, error) {
	cfg := &packages.Config{
		Mode:    packages.LoadAllSyntax,
		Dir:     repo,
		Overlay: overlay,
		Env:     GoEnv(),
	}
	initial, err := packages.Load(cfg, patterns...)
	if err != nil {
		return nil, err
	}
	var errs []string
	packages.Visit(initial, nil, func(p *packages.Package) {
		for _, e := range p.Errors {
			errs = append(errs, e.Error())
		}
	})
	if len(errs) > 0 {
		if len(errs) > 12 {
			errs = errs[:12]
		}
		return nil, fmt.Errorf("harness out of date or tree does not type-check:\n  %s", strings.Join(errs, "\n  "))
	}
	prog, _ := ssautil.AllPackages(initial, ssa.InstantiateGenerics)
	prog.Build()
	p := &Program{Prog: prog, Pkgs: map[string]*ssa.Package{}, Repo: repo}
	for _, sp := range prog.AllPackages() {
		p.Pkgs[sp.Pkg.Path()] = sp
	}
	return p, nil
}

// Func finds a package-level function.
func (p *Program) Func(pkgPath, name string) *ssa.Function {
	sp := p.Pkgs[pkgPath]
	if sp == nil {
		return nil
	}
	return sp.Func(name)
}
