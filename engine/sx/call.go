package sx

import (
	"go/types"
	"strings"

	"golang.org/x/tools/go/ssa"
)

// CallCtx is what an intrinsic sees.
type CallCtx struct {
	Args   []Value
	Fn     *ssa.Function
	Frame  *Frame
	Instr  ssa.Instruction
	Common *ssa.CallCommon
	// ResultType of the call (nil for deferred/go calls without a value)
	RT types.Type
}

// Intrinsic implements a function inside the engine. It returns the result value. It may kill the
// state (s.dead) via panicIf.
type Intrinsic func(x *Exec, s *State, c *CallCtx) Value

var intrinsics = map[string]Intrinsic{}

// blockingIntrinsics may suspend the thread; they get the chance to return "retry later".
type BlockingIntrinsic func(x *Exec, s *State, c *CallCtx) (res Value, blocked bool)

var blockingIntrinsics = map[string]BlockingIntrinsic{}

func RegisterIntrinsic(name string, f Intrinsic) { intrinsics[name] = f }

// callSpec is an evaluated call: builtin, function value(s) or interface method.
type callSpec struct {
	Builtin string
	Fn      *FuncVal
	Recv    *IfaceVal
	Method  *types.Func
	Args    []Value
	Common  *ssa.CallCommon
}

func (x *Exec) evalCall(s *State, f *Frame, c *ssa.CallCommon) callSpec {
	sp := callSpec{Common: c}
	for _, a := range c.Args {
		sp.Args = append(sp.Args, x.val(s, f, a))
	}
	if c.IsInvoke() {
		sp.Recv = x.val(s, f, c.Value).(*IfaceVal)
		sp.Method = c.Method
		return sp
	}
	switch v := c.Value.(type) {
	case *ssa.Builtin:
		sp.Builtin = v.Name()
	default:
		sp.Fn = x.val(s, f, c.Value).(*FuncVal)
	}
	return sp
}

func (x *Exec) makeDeferRec(s *State, f *Frame, c *ssa.CallCommon) DeferRec {
	sp := x.evalCall(s, f, c)
	d := DeferRec{Args: sp.Args, Fn: sp.Fn, Method: sp.Method}
	if sp.Recv != nil {
		d.Recv = sp.Recv
	}
	if sp.Builtin != "" {
		d.Fn = &FuncVal{Alts: []FuncAlt{{G: x.tb.True, Intrinsic: "builtin:" + sp.Builtin}}}
	}
	return d
}

func (x *Exec) doCall(s *State, f *Frame, in *ssa.Call) bool {
	sp := x.evalCall(s, f, in.Common())
	return x.invoke(s, f, sp, in, in, false)
}

func (x *Exec) callDeferred(s *State, f *Frame, d DeferRec) {
	sp := callSpec{Args: d.Args, Fn: d.Fn, Method: d.Method}
	if d.Recv != nil {
		sp.Recv = d.Recv.(*IfaceVal)
	}
	if d.Fn != nil && len(d.Fn.Alts) == 1 && strings.HasPrefix(d.Fn.Alts[0].Intrinsic, "builtin:") {
		sp.Builtin = strings.TrimPrefix(d.Fn.Alts[0].Intrinsic, "builtin:")
		sp.Fn = nil
	}
	if x.invoke(s, f, sp, nil, nil, true) {
		// completed inline (intrinsic): keep running from the same instruction
		x.push(s)
	}
}

// invoke performs a call. dst receives the result (nil: discarded). For a normal call the caller's
// pc is advanced; for a deferred call (deferred=true) it is left at the RunDefers instruction.
// Returns true if the caller can simply continue executing (the call completed inline or a frame
// was pushed on this same state); false if the state was queued, forked or killed.
func (x *Exec) invoke(s *State, f *Frame, sp callSpec, dst ssa.Value, instr ssa.Instruction, deferred bool) bool {
	tb := x.tb
	var rt types.Type
	if dst != nil {
		rt = dst.Type()
	}
	if sp.Builtin != "" {
		v, ok := x.builtin(s, f, sp, rt, instr)
		if !ok {
			return false
		}
		if dst != nil {
			x.set(f, dst, v)
		}
		if !deferred {
			f.PC++
		}
		return true
	}
	// resolve targets
	type target struct {
		g    *Term
		fn   *ssa.Function
		args []Value
		bind []Value
		intr string
	}
	var targets []target
	if sp.Recv != nil {
		nilG := tb.False
		for _, a := range sp.Recv.Alts {
			if a.G.IsFalse() {
				continue
			}
			if a.T == nil {
				nilG = tb.Or(nilG, a.G)
				continue
			}
			m := x.Prog.LookupMethod(a.T, sp.Method.Pkg(), sp.Method.Name())
			if m == nil {
				x.fail("no method %s on dynamic type %s", sp.Method.Name(), a.T)
			}
			args := append([]Value{a.V}, sp.Args...)
			targets = append(targets, target{g: a.G, fn: m, args: args})
		}
		if !x.panicIf(s, nilG, "method call on nil interface ("+sp.Method.Name()+")") {
			return false
		}
	} else {
		nilG := tb.False
		for _, a := range sp.Fn.Alts {
			if a.G.IsFalse() {
				continue
			}
			if a.Fn == nil && a.Intrinsic == "" {
				nilG = tb.Or(nilG, a.G)
				continue
			}
			targets = append(targets, target{g: a.G, fn: a.Fn, args: sp.Args, bind: a.Bindings, intr: a.Intrinsic})
		}
		if !x.panicIf(s, nilG, "call of nil function") {
			return false
		}
	}
	if len(targets) == 0 {
		s.dead = true
		return false
	}
	if len(targets) > 1 {
		// fork one state per dynamic target
		x.NForks++
		for i, tg := range targets {
			var ns *State
			if i == len(targets)-1 {
				ns = s
			} else {
				ns = s.clone()
			}
			if !x.constrain(ns, tg.g) {
				continue
			}
			nf := ns.top()
			one := tg
			if x.callTarget(ns, nf, one.fn, one.intr, one.args, one.bind, dst, instr, deferred, rt, sp.Common) {
				x.push(ns)
			}
		}
		return false
	}
	tg := targets[0]
	return x.callTarget(s, f, tg.fn, tg.intr, tg.args, tg.bind, dst, instr, deferred, rt, sp.Common)
}

func (x *Exec) isStubPkg(path string) bool {
	for _, p := range x.cfg.StubPkgs {
		if path == p || strings.HasPrefix(path, p+"/") {
			return true
		}
	}
	return false
}

func fnPkgPath(fn *ssa.Function) string {
	if fn.Pkg != nil {
		return fn.Pkg.Pkg.Path()
	}
	if fn.Signature != nil && fn.Signature.Recv() != nil {
		t := fn.Signature.Recv().Type()
		if p, ok := t.(*types.Pointer); ok {
			t = p.Elem()
		}
		if n, ok := t.(*types.Named); ok && n.Obj().Pkg() != nil {
			return n.Obj().Pkg().Path()
		}
	}
	if o := fn.Object(); o != nil && o.Pkg() != nil {
		return o.Pkg().Path()
	}
	if fn.Origin() != nil {
		return fnPkgPath(fn.Origin())
	}
	return ""
}

// FuncName is the lookup key of a function in the intrinsic / redirect tables.
func FuncName(fn *ssa.Function) string {
	if o := fn.Origin(); o != nil {
		return o.String()
	}
	return fn.String()
}

func (x *Exec) callTarget(s *State, f *Frame, fn *ssa.Function, intr string, args, bind []Value, dst ssa.Value, instr ssa.Instruction, deferred bool, rt types.Type, common *ssa.CallCommon) bool {
	name := intr
	if fn != nil {
		name = FuncName(fn)
		if m, ok := x.Redirects[name]; ok {
			fn = m
			name = FuncName(fn)
		}
	}
	finish := func(v Value) bool {
		if s.dead || s.G.IsFalse() {
			return false
		}
		if dst != nil {
			if v == nil && rt != nil {
				if tt, ok := rt.(*types.Tuple); !ok || tt.Len() > 0 {
					v = x.zero(rt)
				}
			}
			x.set(f, dst, v)
		}
		if !deferred {
			f.PC++
		}
		return true
	}
	if bi, ok := blockingIntrinsics[name]; ok {
		ctx := &CallCtx{Args: args, Fn: fn, Frame: f, Instr: instr, Common: common, RT: rt}
		v, blocked := bi(x, s, ctx)
		if blocked {
			return false
		}
		return finish(v)
	}
	if in, ok := intrinsics[name]; ok {
		ctx := &CallCtx{Args: args, Fn: fn, Frame: f, Instr: instr, Common: common, RT: rt}
		x.StubsHit["intrinsic:"+name]++
		v := in(x, s, ctx)
		if name == VrfPkg+".Join" {
			if finish(v) {
				x.push(s)
			}
			return false
		}
		return finish(v)
	}
	if fn == nil {
		x.fail("unknown intrinsic %q", intr)
	}
	pp := fnPkgPath(fn)
	if x.isStubPkg(pp) {
		x.StubsHit["stub:"+name]++
		var v Value
		if fn.Signature.Results().Len() == 1 {
			v = x.zero(fn.Signature.Results().At(0).Type())
		} else if fn.Signature.Results().Len() > 1 {
			v = x.zero(fn.Signature.Results())
		}
		return finish(v)
	}
	if fn.Name() == "init" && fn.Signature.Recv() == nil && fn.Pkg != nil && !x.isInitPkg(fn.Pkg) && fn.Parent() == nil {
		// initialiser of a package outside the configured set: skipped
		return finish(nil)
	}
	if len(fn.Blocks) == 0 {
		x.fail("call to %s: no SSA body, no intrinsic, not a stub package (%s)", name, pp)
	}
	if !deferred {
		f.PC++
	}
	nf := x.pushFrame(s, fn, args, bind, dst)
	nf.Deferred = deferred
	return true
}

// ---------- builtins ----------

func (x *Exec) builtin(s *State, f *Frame, sp callSpec, rt types.Type, instr ssa.Instruction) (Value, bool) {
	tb := x.tb
	a := sp.Args
	switch sp.Builtin {
	case "len":
		switch v := a[0].(type) {
		case *StrVal:
			return v.Len, true
		case *SliceVal:
			return v.Len, true
		case *PtrVal:
			// map, chan or pointer to array: per live alternative
			var r *Term
			isMap := false
			for _, a := range v.Alts {
				if a.Obj == 0 || a.G.IsFalse() {
					continue
				}
				var l *Term
				switch o := getPath(s.Heap[a.Obj], a.Path).(type) {
				case *MapObj:
					isMap = true
				case *ChanObj:
					l = o.Len
				case *ArrayVal:
					l = tb.Int64(int64(len(o.E)))
				}
				if isMap {
					break
				}
				if r == nil {
					r = l
				} else {
					r = tb.Ite(a.G, l, r)
				}
			}
			if isMap {
				return x.mapLen(s, v), true
			}
			if r == nil {
				return tb.Int64(0), true
			}
			if nl := x.ptrIsNil(v); !nl.IsFalse() {
				r = tb.Ite(nl, tb.Int64(0), r)
			}
			return r, true
		case *ArrayVal:
			return tb.Int64(int64(len(v.E))), true
		}
	case "cap":
		switch v := a[0].(type) {
		case *SliceVal:
			return v.Cap, true
		case *PtrVal:
			if len(v.Alts) == 1 && v.Alts[0].Obj != 0 {
				if o, ok := s.Heap[v.Alts[0].Obj].(*ChanObj); ok {
					return tb.Int64(int64(o.Cap)), true
				}
			}
		}
	case "append":
		return x.doAppend(s, a[0].(*SliceVal), a[1], rt)
	case "copy":
		return x.doCopy(s, a[0].(*SliceVal), a[1])
	case "delete":
		x.mapDelete(s, a[0].(*PtrVal), a[1])
		return nil, true
	case "close":
		return nil, x.chanClose(s, a[0].(*PtrVal))
	case "recover":
		return x.doRecover(s), true
	case "print", "println":
		return nil, true
	case "ssa:wrapnilchk":
		p := a[0].(*PtrVal)
		if !x.panicIf(s, x.ptrIsNil(p), "value method called via nil pointer") {
			return nil, false
		}
		return p, true
	case "min", "max":
		r := a[0].(*Term)
		uns := isUnsigned(sp.Common.Args[0].Type())
		for _, o := range a[1:] {
			ot := o.(*Term)
			var lt *Term
			if uns {
				lt = tb.ULt(ot, r)
			} else {
				lt = tb.SLt(ot, r)
			}
			if sp.Builtin == "max" {
				lt = tb.Not(tb.Or(lt, tb.Eq(ot, r)))
				r = tb.Ite(lt, r, ot)
			} else {
				r = tb.Ite(lt, ot, r)
			}
		}
		return r, true
	}
	x.fail("unsupported builtin %s on %T", sp.Builtin, a[0])
	return nil, false
}

func (x *Exec) doRecover(s *State) Value {
	t := s.thread()
	nilI := &IfaceVal{Alts: []IfaceAlt{{G: x.tb.True}}}
	if t.Panicking == nil || t.Recovered {
		return nilI
	}
	// must be called directly by a deferred function started by the unwinding
	n := len(t.Frames)
	if n < 2 || !t.Frames[n-1].Deferred || !t.Frames[n-2].Unwinding {
		return nilI
	}
	t.Recovered = true
	if iv, ok := t.Panicking.(*IfaceVal); ok {
		return iv
	}
	return &IfaceVal{Alts: []IfaceAlt{{G: x.tb.True, T: types.Typ[types.String], V: t.Panicking}}}
}

// unwindStep advances a panicking thread whose top frame is unwinding. Returns true if the state
// should keep running in runState.
func (x *Exec) unwindStep(s *State) bool {
	t := s.thread()
	f := t.Frames[len(t.Frames)-1]
	if len(f.Defers) > 0 {
		d := f.Defers[len(f.Defers)-1]
		f.Defers = f.Defers[:len(f.Defers)-1]
		sp := callSpec{Args: d.Args, Fn: d.Fn, Method: d.Method}
		if d.Recv != nil {
			sp.Recv = d.Recv.(*IfaceVal)
		}
		if d.Fn != nil && len(d.Fn.Alts) == 1 && strings.HasPrefix(d.Fn.Alts[0].Intrinsic, "builtin:") {
			sp.Builtin = strings.TrimPrefix(d.Fn.Alts[0].Intrinsic, "builtin:")
			sp.Fn = nil
		}
		return x.invoke(s, f, sp, nil, nil, true)
	}
	if t.Recovered {
		t.Panicking = nil
		t.Recovered = false
		f.Unwinding = false
		fn := f.Info.Fn
		if fn.Recover != nil {
			f.Prev = f.Block
			f.Block = fn.Recover.Index
			f.PC = 0
			f.Iter = nil
			return true
		}
		var res Value
		if r := fn.Signature.Results(); r.Len() == 1 {
			res = x.zero(r.At(0).Type())
		} else if r.Len() > 1 {
			res = x.zero(r)
		}
		x.doReturn(s, res)
		return false
	}
	// propagate to the caller
	t.Frames = t.Frames[:len(t.Frames)-1]
	if len(t.Frames) == 0 {
		x.threadEnded(s)
		return false
	}
	nf := t.Frames[len(t.Frames)-1]
	if f.Deferred {
		// a panic escaping a deferred call continues unwinding the frame that ran it
		nf.Unwinding = true
		return true
	}
	nf.Unwinding = true
	return true
}

// ---------- append / copy ----------

// storeCond stores v through p only where cond holds.
func (x *Exec) storeCond(s *State, p *PtrVal, v Value, cond *Term) {
	if cond.IsFalse() {
		return
	}
	for _, a := range p.Alts {
		if a.Obj == 0 {
			continue
		}
		g := x.tb.And(a.G, cond)
		if g.IsFalse() {
			continue
		}
		obj := s.Heap[a.Obj]
		old := getPath(obj, a.Path)
		if old == nil {
			continue
		}
		s.Heap[a.Obj] = setPath(obj, a.Path, x.ite(g, v, old))
	}
}

func (x *Exec) doAppend(s *State, dst *SliceVal, src Value, rt types.Type) (Value, bool) {
	tb := x.tb
	var elems []Value
	var n *Term
	switch sv := src.(type) {
	case *StrVal:
		n = sv.Len
		for _, b := range sv.B {
			elems = append(elems, b)
		}
	case *SliceVal:
		n = sv.Len
		if !(sv.Len.IsConst() && sv.Len.K == 0) {
			var ok bool
			elems, ok = x.sliceElems(s, sv)
			if !ok {
				return nil, false
			}
		}
	default:
		x.fail("append of %T", src)
	}
	if n.IsConst() && n.K == 0 {
		return dst, true
	}
	if n.Hi < uint64(len(elems)) {
		elems = elems[:n.Hi]
	}
	newLen := tb.Add(dst.Len, n)
	fits := tb.ULe(newLen, dst.Cap)
	var inPlace, grown *SliceVal
	if !fits.IsFalse() {
		// write elements at dst.Len + j under (fits && j < n)
		for j, e := range elems {
			idx := tb.Add(dst.Len, tb.Int64(int64(j)))
			p := x.offsetPtr(s, dst.Ptr, idx, int(min64(dst.Cap.Hi, 1<<20)))
			x.storeCond(s, p, e, tb.And(fits, tb.ULt(tb.Int64(int64(j)), n)))
		}
		inPlace = &SliceVal{Ptr: dst.Ptr, Len: newLen, Cap: dst.Cap}
	}
	if !fits.IsTrue() {
		if newLen.Hi > 1<<20 {
			x.fail("append: unbounded symbolic length")
		}
		ncap := int(newLen.Hi)
		if c2 := 2 * int(min64(dst.Cap.Hi, 1<<15)); c2 > ncap {
			ncap = c2
		}
		var old []Value
		if !(dst.Len.IsConst() && dst.Len.K == 0) {
			var ok bool
			old, ok = x.sliceElems(s, dst)
			if !ok {
				return nil, false
			}
		}
		et := rt.Underlying().(*types.Slice).Elem()
		z := x.zero(et)
		arr := &ArrayVal{E: make([]Value, ncap)}
		for i := range arr.E {
			var v Value = z
			if i < len(old) {
				v = x.ite(tb.ULt(tb.Int64(int64(i)), dst.Len), old[i], z)
			}
			arr.E[i] = v
		}
		// new elements at symbolic offset dst.Len
		for j, e := range elems {
			inN := tb.ULt(tb.Int64(int64(j)), n)
			for p := int(dst.Len.Lo) + j; p <= int(min64(dst.Len.Hi, 1<<20))+j && p < ncap; p++ {
				c := tb.And(inN, tb.Eq(dst.Len, tb.Int64(int64(p-j))))
				arr.E[p] = x.ite(c, e, arr.E[p])
			}
		}
		id := x.newObj(arr, s)
		grown = &SliceVal{Ptr: x.ptrTo(id, 0), Len: newLen, Cap: tb.Int64(int64(ncap))}
	}
	if inPlace == nil {
		return grown, true
	}
	if grown == nil {
		return inPlace, true
	}
	return x.ite(fits, inPlace, grown), true
}

func (x *Exec) doCopy(s *State, dst *SliceVal, src Value) (Value, bool) {
	tb := x.tb
	var elems []Value
	var n *Term
	switch sv := src.(type) {
	case *StrVal:
		n = sv.Len
		for _, b := range sv.B {
			elems = append(elems, b)
		}
	case *SliceVal:
		n = sv.Len
		if !(sv.Len.IsConst() && sv.Len.K == 0) {
			var ok bool
			elems, ok = x.sliceElems(s, sv)
			if !ok {
				return nil, false
			}
		}
	}
	cnt := tb.Ite(tb.ULt(dst.Len, n), dst.Len, n)
	lim := int(min64(cnt.Hi, uint64(len(elems))))
	for j := 0; j < lim; j++ {
		p := x.offsetPtr(s, dst.Ptr, tb.Int64(int64(j)), 1)
		x.storeCond(s, p, elems[j], tb.ULt(tb.Int64(int64(j)), cnt))
	}
	return cnt, true
}
