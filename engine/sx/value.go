package sx

import (
	"fmt"
	"go/types"
	"sort"

	"golang.org/x/tools/go/ssa"
)

// Value is a symbolic Go value. Concrete kinds:
//
//	*Term      bool / integer scalar
//	*StrVal    string
//	*StructVal struct (by value)
//	*ArrayVal  array (by value) — also the backing store of slices
//	*PtrVal    pointer, map, chan (reference to a heap object; guarded set of addresses)
//	*SliceVal  slice
//	*IfaceVal  interface (guarded set of dynamic type/value)
//	*FuncVal   function / closure (guarded set)
//	*TupleVal  multi-value result
//	*MapObj, *ChanObj, *OpaqueVal  heap-object payloads
type Value interface{}

// StrVal is a string: B[i] are 8-bit terms, Len a 64-bit term with Len <= len(B).
type StrVal struct {
	B   []*Term
	Len *Term
	// NonASCII, when non-nil, is the condition under which this string is an opaque non-ASCII
	// string (result of ToLower/ToUpper on bytes >= 0x80): it then differs from every ASCII string.
	Opaque *Term
	// LenOnly: a buffer whose content is never inspected (message bodies of arbitrary size);
	// only Len is meaningful, any read of the content aborts the run.
	LenOnly bool
}

type StructVal struct{ F []Value }
type ArrayVal struct{ E []Value }
type TupleVal struct{ E []Value }

// PtrAlt is one guarded address: object id (0 = nil) and a path of field/element indexes.
type PtrAlt struct {
	G    *Term
	Obj  int
	Path []int
}
type PtrVal struct{ Alts []PtrAlt }

// SliceVal: Ptr addresses element 0 (path ends in the element index of the backing ArrayVal).
type SliceVal struct {
	Ptr *PtrVal
	Len *Term
	Cap *Term
}

type IfaceAlt struct {
	G *Term
	T types.Type // nil = nil interface
	V Value
}
type IfaceVal struct{ Alts []IfaceAlt }

type FuncAlt struct {
	G        *Term
	Fn       *ssa.Function // nil = nil func
	Bindings []Value
	// Bound receiver for method values created by the engine (intrinsics)
	Intrinsic string
}
type FuncVal struct{ Alts []FuncAlt }

// MapEntry of a map object. Key is *Term or *StrVal (or an IfaceVal/PtrVal compared by identity).
type MapEntry struct {
	Key     Value
	Present *Term
	Val     Value
}
type MapObj struct {
	Entries []MapEntry
	KT, VT  types.Type
}

// ChanObj models a channel.
type ChanObj struct {
	Cap    int
	Buf    []Value // len Cap (buffered) — queue stored compacted at [0,Len)
	Len    *Term
	Closed *Term
	ET     types.Type
	// unbuffered rendez-vous
	Parked   Value // value offered by a parked sender (nil if none)
	ParkedG  *Term // condition under which a value is parked
	Taken    *Term // parked value has been taken by a receiver
	Senders  int
	Recvwait *Term
	// Timer: channel returned by time.After; it delivers its value when the receiver would
	// otherwise block (time passes), or at once when the duration was <= 0
	Timer bool
}

// OpaqueVal is an engine-private payload stored in a field of a modelled stdlib struct.
type OpaqueVal struct {
	Kind string
	V    Value
	X    interface{}
}

func pathEq(a, b []int) bool {
	if len(a) != len(b) {
		return false
	}
	for i := range a {
		if a[i] != b[i] {
			return false
		}
	}
	return true
}

func (x *Exec) nilPtr() *PtrVal { return &PtrVal{Alts: []PtrAlt{{G: x.tb.True, Obj: 0}}} }

func (x *Exec) ptrTo(obj int, path ...int) *PtrVal {
	return &PtrVal{Alts: []PtrAlt{{G: x.tb.True, Obj: obj, Path: path}}}
}

func (x *Exec) str(s string) *StrVal {
	b := make([]*Term, len(s))
	for i := 0; i < len(s); i++ {
		b[i] = x.tb.BV(8, uint64(s[i]))
	}
	return &StrVal{B: b, Len: x.tb.Int64(int64(len(s)))}
}

// concreteStr returns the Go string if s is fully concrete.
func (x *Exec) concreteStr(s *StrVal) (string, bool) {
	if !s.Len.IsConst() || (s.Opaque != nil && !s.Opaque.IsFalse()) {
		return "", false
	}
	n := int(s.Len.K)
	out := make([]byte, n)
	for i := 0; i < n; i++ {
		if !s.B[i].IsConst() {
			return "", false
		}
		out[i] = byte(s.B[i].K)
	}
	return string(out), true
}

// normPtr coalesces alternatives with the same address and drops false guards.
func (x *Exec) normPtr(p *PtrVal) *PtrVal {
	out := make([]PtrAlt, 0, len(p.Alts))
	for _, a := range p.Alts {
		if a.G.IsFalse() {
			continue
		}
		found := false
		for i := range out {
			if out[i].Obj == a.Obj && pathEq(out[i].Path, a.Path) {
				out[i].G = x.tb.Or(out[i].G, a.G)
				found = true
				break
			}
		}
		if !found {
			out = append(out, a)
		}
	}
	if len(out) == 0 {
		// unreachable value; keep a nil so that loads have something to do
		return &PtrVal{Alts: []PtrAlt{{G: x.tb.False, Obj: 0}}}
	}
	return &PtrVal{Alts: out}
}

// ite merges two values of the same static kind: ite(c, a, b).
func (x *Exec) ite(c *Term, a, b Value) Value {
	if c.IsTrue() {
		return a
	}
	if c.IsFalse() {
		return b
	}
	if a == nil {
		return b
	}
	if b == nil {
		return a
	}
	if a == b {
		return a
	}
	tb := x.tb
	switch av := a.(type) {
	case *Term:
		bv, ok := b.(*Term)
		if !ok {
			panic(fmt.Sprintf("ite kind mismatch: Term vs %T", b))
		}
		return tb.Ite(c, av, bv)
	case *StrVal:
		bv, ok := b.(*StrVal)
		if !ok {
			// modelled buffers keep their content in a field whose zero value is a nil slice
			if _, isSl := b.(*SliceVal); isSl {
				bv = x.str("")
			} else {
				panic(fmt.Sprintf("ite kind mismatch: StrVal vs %T", b))
			}
		}
		n := len(av.B)
		if len(bv.B) > n {
			n = len(bv.B)
		}
		out := &StrVal{B: make([]*Term, n), LenOnly: av.LenOnly || bv.LenOnly}
		z := tb.BV(8, 0)
		for i := 0; i < n; i++ {
			p, q := z, z
			if i < len(av.B) {
				p = av.B[i]
			}
			if i < len(bv.B) {
				q = bv.B[i]
			}
			out.B[i] = tb.Ite(c, p, q)
		}
		out.Len = tb.Ite(c, av.Len, bv.Len)
		if av.Opaque != nil || bv.Opaque != nil {
			ao, bo := tb.False, tb.False
			if av.Opaque != nil {
				ao = av.Opaque
			}
			if bv.Opaque != nil {
				bo = bv.Opaque
			}
			out.Opaque = tb.Ite(c, ao, bo)
			if out.Opaque.IsFalse() {
				out.Opaque = nil
			}
		}
		return out
	case *StructVal:
		bv := b.(*StructVal)
		out := &StructVal{F: make([]Value, len(av.F))}
		for i := range av.F {
			out.F[i] = x.ite(c, av.F[i], bv.F[i])
		}
		return out
	case *ArrayVal:
		bv := b.(*ArrayVal)
		// backing arrays allocated at the same position may differ in length: elements beyond the
		// shorter one exist only under the other guard
		n := len(av.E)
		if len(bv.E) > n {
			n = len(bv.E)
		}
		out := &ArrayVal{E: make([]Value, n)}
		for i := 0; i < n; i++ {
			switch {
			case i >= len(av.E):
				out.E[i] = bv.E[i]
			case i >= len(bv.E):
				out.E[i] = av.E[i]
			default:
				out.E[i] = x.ite(c, av.E[i], bv.E[i])
			}
		}
		return out
	case *TupleVal:
		bv := b.(*TupleVal)
		out := &TupleVal{E: make([]Value, len(av.E))}
		for i := range av.E {
			out.E[i] = x.ite(c, av.E[i], bv.E[i])
		}
		return out
	case *PtrVal:
		bv := b.(*PtrVal)
		out := &PtrVal{}
		nc := tb.Not(c)
		for _, al := range av.Alts {
			out.Alts = append(out.Alts, PtrAlt{G: tb.And(c, al.G), Obj: al.Obj, Path: al.Path})
		}
		for _, al := range bv.Alts {
			out.Alts = append(out.Alts, PtrAlt{G: tb.And(nc, al.G), Obj: al.Obj, Path: al.Path})
		}
		return x.normPtr(out)
	case *SliceVal:
		if bs, isStr := b.(*StrVal); isStr {
			return x.ite(c, x.str(""), bs)
		}
		bv := b.(*SliceVal)
		return &SliceVal{Ptr: x.ite(c, av.Ptr, bv.Ptr).(*PtrVal), Len: tb.Ite(c, av.Len, bv.Len), Cap: tb.Ite(c, av.Cap, bv.Cap)}
	case *IfaceVal:
		bv := b.(*IfaceVal)
		out := &IfaceVal{}
		nc := tb.Not(c)
		add := func(g *Term, al IfaceAlt) {
			g = tb.And(g, al.G)
			if g.IsFalse() {
				return
			}
			for i := range out.Alts {
				o := &out.Alts[i]
				if (o.T == nil && al.T == nil) || (o.T != nil && al.T != nil && types.Identical(o.T, al.T)) {
					if o.T != nil {
						o.V = x.ite(g, al.V, o.V)
					}
					o.G = tb.Or(o.G, g)
					return
				}
			}
			out.Alts = append(out.Alts, IfaceAlt{G: g, T: al.T, V: al.V})
		}
		for _, al := range av.Alts {
			add(c, al)
		}
		for _, al := range bv.Alts {
			add(nc, al)
		}
		if len(out.Alts) == 0 {
			out.Alts = []IfaceAlt{{G: tb.False}}
		}
		return out
	case *FuncVal:
		bv := b.(*FuncVal)
		out := &FuncVal{}
		nc := tb.Not(c)
		add := func(g *Term, al FuncAlt) {
			g = tb.And(g, al.G)
			if g.IsFalse() {
				return
			}
			for i := range out.Alts {
				o := &out.Alts[i]
				if o.Fn == al.Fn && o.Intrinsic == al.Intrinsic && len(o.Bindings) == len(al.Bindings) {
					nb := make([]Value, len(o.Bindings))
					for j := range nb {
						nb[j] = x.ite(g, al.Bindings[j], o.Bindings[j])
					}
					o.Bindings = nb
					o.G = tb.Or(o.G, g)
					return
				}
			}
			out.Alts = append(out.Alts, FuncAlt{G: g, Fn: al.Fn, Bindings: al.Bindings, Intrinsic: al.Intrinsic})
		}
		for _, al := range av.Alts {
			add(c, al)
		}
		for _, al := range bv.Alts {
			add(nc, al)
		}
		if len(out.Alts) == 0 {
			out.Alts = []FuncAlt{{G: tb.False}}
		}
		return out
	case *MapObj:
		bv := b.(*MapObj)
		return x.iteMap(c, av, bv)
	case *ChanObj:
		bv := b.(*ChanObj)
		return x.iteChan(c, av, bv)
	case *OpaqueVal:
		bv := b.(*OpaqueVal)
		if av.Kind != bv.Kind || av.X != bv.X {
			// only legal for dead registers (e.g. range iterators of different loop iterations
			// meeting after the loop): the merged value is poison, any use of it aborts the run
			return &OpaqueVal{Kind: "poison"}
		}
		return &OpaqueVal{Kind: av.Kind, V: x.ite(c, av.V, bv.V), X: av.X}
	}
	panic(fmt.Sprintf("ite: unsupported value kind %T", a))
}

func (x *Exec) iteMap(c *Term, a, b *MapObj) *MapObj {
	tb := x.tb
	// entries are matched by (syntactically) equal keys, whatever their position
	out := &MapObj{KT: a.KT, VT: a.VT}
	used := make([]bool, len(b.Entries))
	nc := tb.Not(c)
	for _, ea := range a.Entries {
		matched := false
		for j, eb := range b.Entries {
			if used[j] || !x.sameKey(ea.Key, eb.Key) {
				continue
			}
			used[j] = true
			matched = true
			out.Entries = append(out.Entries, MapEntry{Key: ea.Key, Present: tb.Ite(c, ea.Present, eb.Present), Val: x.ite(c, ea.Val, eb.Val)})
			break
		}
		if !matched {
			out.Entries = append(out.Entries, MapEntry{Key: ea.Key, Present: tb.And(c, ea.Present), Val: ea.Val})
		}
	}
	for j, eb := range b.Entries {
		if !used[j] {
			out.Entries = append(out.Entries, MapEntry{Key: eb.Key, Present: tb.And(nc, eb.Present), Val: eb.Val})
		}
	}
	return out
}

func (x *Exec) sameKey(a, b Value) bool {
	if a == b {
		return true
	}
	switch av := a.(type) {
	case *Term:
		bv, ok := b.(*Term)
		return ok && av == bv
	case *StrVal:
		bv, ok := b.(*StrVal)
		if !ok || av.Len != bv.Len || len(av.B) != len(bv.B) {
			return false
		}
		for i := range av.B {
			if av.B[i] != bv.B[i] {
				return false
			}
		}
		return true
	}
	return false
}

func (x *Exec) iteChan(c *Term, a, b *ChanObj) *ChanObj {
	tb := x.tb
	if a.Cap != b.Cap {
		panic("ite of channels with different capacity")
	}
	if a.Senders != b.Senders {
		if a.Senders != 0 && b.Senders != 0 {
			panic("ite of channels with different parked senders")
		}
	}
	out := &ChanObj{Cap: a.Cap, ET: a.ET, Buf: make([]Value, a.Cap), Senders: a.Senders, Timer: a.Timer || b.Timer}
	if out.Senders == 0 {
		out.Senders = b.Senders
	}
	for i := range out.Buf {
		out.Buf[i] = x.ite(c, a.Buf[i], b.Buf[i])
	}
	out.Len = tb.Ite(c, a.Len, b.Len)
	out.Closed = tb.Ite(c, a.Closed, b.Closed)
	if a.Parked != nil || b.Parked != nil {
		out.Parked = x.ite(c, a.Parked, b.Parked)
	}
	pg := func(t *Term) *Term {
		if t == nil {
			return tb.False
		}
		return t
	}
	out.ParkedG = tb.Ite(c, pg(a.ParkedG), pg(b.ParkedG))
	out.Taken = tb.Ite(c, pg(a.Taken), pg(b.Taken))
	return out
}

// zero returns the zero value of a Go type.
func (x *Exec) zero(t types.Type) Value {
	tb := x.tb
	switch u := t.Underlying().(type) {
	case *types.Basic:
		switch {
		case u.Kind() == types.Invalid:
			// unused component of a range/select tuple
			return tb.False
		case u.Info()&types.IsBoolean != 0:
			return tb.False
		case u.Info()&types.IsString != 0:
			return &StrVal{Len: tb.Int64(0)}
		case u.Info()&types.IsInteger != 0:
			return tb.BV(x.intWidth(u), 0)
		case u.Kind() == types.UnsafePointer:
			return x.nilPtr()
		case u.Kind() == types.UntypedNil:
			return x.nilPtr()
		case u.Info()&types.IsFloat != 0:
			return tb.BV(64, 0) // floats are not modelled; carried as opaque bits
		}
	case *types.Pointer, *types.Map, *types.Chan:
		return x.nilPtr()
	case *types.Slice:
		return &SliceVal{Ptr: x.nilPtr(), Len: tb.Int64(0), Cap: tb.Int64(0)}
	case *types.Struct:
		s := &StructVal{F: make([]Value, u.NumFields())}
		for i := range s.F {
			s.F[i] = x.zero(u.Field(i).Type())
		}
		return s
	case *types.Array:
		a := &ArrayVal{E: make([]Value, u.Len())}
		var z Value
		for i := range a.E {
			if z == nil {
				z = x.zero(u.Elem())
			}
			a.E[i] = z
		}
		return a
	case *types.Interface:
		return &IfaceVal{Alts: []IfaceAlt{{G: tb.True}}}
	case *types.Signature:
		return &FuncVal{Alts: []FuncAlt{{G: tb.True}}}
	case *types.Tuple:
		tv := &TupleVal{E: make([]Value, u.Len())}
		for i := range tv.E {
			tv.E[i] = x.zero(u.At(i).Type())
		}
		return tv
	}
	panic(fmt.Sprintf("zero: unsupported type %s", t))
}

func (x *Exec) intWidth(b *types.Basic) int {
	switch b.Kind() {
	case types.Int8, types.Uint8:
		return 8
	case types.Int16, types.Uint16:
		return 16
	case types.Int32, types.Uint32:
		return 32
	case types.Bool, types.UntypedBool:
		return 0
	}
	return 64
}

func isUnsigned(t types.Type) bool {
	b, ok := t.Underlying().(*types.Basic)
	return ok && b.Info()&types.IsUnsigned != 0
}

func isString(t types.Type) bool {
	b, ok := t.Underlying().(*types.Basic)
	return ok && b.Info()&types.IsString != 0
}

// ---- string helpers ----

// strByteAt returns s[i] for a 64-bit index term (ite chain); caller has checked bounds.
func (x *Exec) strByteAt(s *StrVal, idx *Term) *Term {
	tb := x.tb
	if s.LenOnly {
		x.fail("content of a length-only buffer is read (outside the encoding)")
	}
	if idx.IsConst() {
		if idx.K < uint64(len(s.B)) {
			return s.B[idx.K]
		}
		return tb.BV(8, 0)
	}
	r := tb.BV(8, 0)
	hi := len(s.B) - 1
	if idx.Hi < uint64(hi) {
		hi = int(idx.Hi)
	}
	for i := hi; i >= int(min64(idx.Lo, uint64(hi+1))); i-- {
		if i < 0 {
			break
		}
		r = tb.Ite(tb.Eq(idx, tb.Int64(int64(i))), s.B[i], r)
	}
	return r
}

// strSlice returns s[lo:hi]; bounds must have been checked by the caller.
func (x *Exec) strSlice(s *StrVal, lo, hi *Term) *StrVal {
	tb := x.tb
	// bounds lo <= hi <= len(s) were checked by the caller, so hi-lo <= min(hi.Hi, cap) - lo.Lo
	mx := min64(hi.Hi, uint64(len(s.B)))
	if lo.Lo <= mx {
		mx -= lo.Lo
	} else {
		mx = 0
	}
	newLen := tb.ClampU(tb.Sub(hi, lo), mx)
	if lo.IsConst() {
		o := int(lo.K)
		if o > len(s.B) {
			o = len(s.B)
		}
		nb := s.B[o:]
		if newLen.Hi < uint64(len(nb)) {
			nb = nb[:newLen.Hi]
		}
		return &StrVal{B: nb, Len: newLen, Opaque: s.Opaque}
	}
	// symbolic offset: out[j] = s[lo+j]
	maxOut := len(s.B)
	if newLen.Hi < uint64(maxOut) {
		maxOut = int(newLen.Hi)
	}
	if lo.Lo > 0 && uint64(len(s.B)) >= lo.Lo && len(s.B)-int(lo.Lo) < maxOut {
		maxOut = len(s.B) - int(lo.Lo)
	}
	out := &StrVal{B: make([]*Term, maxOut), Len: newLen, Opaque: s.Opaque}
	for j := 0; j < maxOut; j++ {
		out.B[j] = x.strByteAt(s, tb.Add(lo, tb.Int64(int64(j))))
	}
	return out
}

// strConcat returns a + b.
func (x *Exec) strConcat(a, b *StrVal) *StrVal {
	tb := x.tb
	if a.LenOnly || b.LenOnly {
		return &StrVal{Len: tb.Add(a.Len, b.Len), LenOnly: true}
	}
	if a.Len.IsConst() && a.Len.K == 0 {
		return b
	}
	if b.Len.IsConst() && b.Len.K == 0 {
		return a
	}
	newLen := tb.Add(a.Len, b.Len)
	var op *Term
	if a.Opaque != nil || b.Opaque != nil {
		op = tb.Or(orFalse(tb, a.Opaque), orFalse(tb, b.Opaque))
	}
	if a.Len.IsConst() {
		n := int(a.Len.K)
		nb := make([]*Term, 0, n+len(b.B))
		nb = append(nb, a.B[:n]...)
		nb = append(nb, b.B...)
		return &StrVal{B: nb, Len: newLen, Opaque: op}
	}
	maxA := len(a.B)
	if a.Len.Hi < uint64(maxA) {
		maxA = int(a.Len.Hi)
	}
	minA := int(min64(a.Len.Lo, uint64(maxA)))
	maxB := len(b.B)
	if b.Len.Hi < uint64(maxB) {
		maxB = int(b.Len.Hi)
	}
	total := maxA + maxB
	nb := make([]*Term, total)
	z := tb.BV(8, 0)
	for j := 0; j < total; j++ {
		// result[j] = j < lenA ? a[j] : b[j-lenA]
		var fromB *Term = z
		// possible lenA values such that 0 <= j-lenA < maxB
		for la := maxA; la >= minA; la-- {
			k := j - la
			if k < 0 || k >= maxB {
				continue
			}
			fromB = tb.Ite(tb.Eq(a.Len, tb.Int64(int64(la))), b.B[k], fromB)
		}
		if j < maxA {
			nb[j] = tb.Ite(tb.ULt(tb.Int64(int64(j)), a.Len), a.B[j], fromB)
		} else {
			nb[j] = fromB
		}
	}
	return &StrVal{B: nb, Len: newLen, Opaque: op}
}

func orFalse(tb *TB, t *Term) *Term {
	if t == nil {
		return tb.False
	}
	return t
}

// strEq returns the term a == b.
func (x *Exec) strEq(a, b *StrVal) *Term {
	tb := x.tb
	if a.LenOnly || b.LenOnly {
		x.fail("content of a length-only buffer is compared (outside the encoding)")
	}
	r := tb.Eq(a.Len, b.Len)
	if r.IsFalse() {
		return r
	}
	n := len(a.B)
	if len(b.B) < n {
		n = len(b.B)
	}
	// only positions below both max lengths matter
	if a.Len.Hi < uint64(n) {
		n = int(a.Len.Hi)
	}
	if b.Len.Hi < uint64(n) {
		n = int(b.Len.Hi)
	}
	for i := 0; i < n; i++ {
		e := tb.Eq(a.B[i], b.B[i])
		if e.IsTrue() {
			continue
		}
		in := tb.ULt(tb.Int64(int64(i)), a.Len)
		r = tb.And(r, tb.Implies(in, e))
		if r.IsFalse() {
			return r
		}
	}
	if a.Opaque != nil || b.Opaque != nil {
		// an opaque non-ASCII string equals nothing we can name (sound for comparisons with ASCII text)
		r = tb.And(r, tb.Not(tb.Or(orFalse(tb, a.Opaque), orFalse(tb, b.Opaque))))
	}
	return r
}

// strLess returns a < b (lexicographic, bytewise).
func (x *Exec) strLess(a, b *StrVal) *Term {
	tb := x.tb
	n := len(a.B)
	if len(b.B) > n {
		n = len(b.B)
	}
	// process from the end: less_i = (i>=lenA && i<lenB) || (i<lenA && i<lenB && (a[i]<b[i] || (a[i]==b[i] && less_{i+1})))
	less := tb.False
	z := tb.BV(8, 0)
	for i := n; i >= 0; i-- {
		ii := tb.Int64(int64(i))
		inA := tb.ULt(ii, a.Len)
		inB := tb.ULt(ii, b.Len)
		ab, bb := z, z
		if i < len(a.B) {
			ab = a.B[i]
		}
		if i < len(b.B) {
			bb = b.B[i]
		}
		if i == n {
			less = tb.And(tb.Not(inA), inB)
			continue
		}
		both := tb.And(inA, inB)
		less = tb.Or(tb.And(tb.Not(inA), inB), tb.And(both, tb.Or(tb.ULt(ab, bb), tb.And(tb.Eq(ab, bb), less))))
	}
	return less
}

// sortedKeys for deterministic iteration over int-keyed maps.
func sortedKeys(m map[int]Value) []int {
	ks := make([]int, 0, len(m))
	for k := range m {
		ks = append(ks, k)
	}
	sort.Ints(ks)
	return ks
}
