package sx

import (
	"fmt"
	"go/token"
	"go/types"
	"os"
	"sort"
	"strings"
	"time"

	"golang.org/x/tools/go/ssa"
)

// Obligation is a proof obligation or a cover point. For Kind != "cover", Cond must be UNSAT
// (it is path-guard ∧ ¬assertion); for covers it must be SAT.
type Obligation struct {
	Kind  string // assert | panic | unwind | escape | deadlock | cover
	Label string
	Pos   string
	Cond  *Term
	// Known: predicates of known findings registered on this path (id -> condition)
	Known map[string]*Term
}

// Input is a named symbolic input created through the zzvrf API.
type Input struct {
	Name string
	Kind string // bool | int | byte | string | bytes
	W    int
	N    int     // capacity for strings
	Len  *Term   // strings
	B    []*Term // strings
	T    *Term   // scalars
	Lo   int64
	Hi   int64
}

// FnInfo caches per-function analysis.
type FnInfo struct {
	Fn     *ssa.Function
	ID     int
	Num    map[ssa.Value]int
	NRegs  int
	RPO    []int   // block index -> rpo position
	Loops  [][]int // block index -> chain of loop headers (block indexes), outermost first
	InLoop []map[int]bool
	NPreds []int
}

type DeferRec struct {
	Fn   *FuncVal
	Args []Value
	// for invoke-mode defers
	Recv   Value
	Method *types.Func
}

// Frame is one activation record.
type Frame struct {
	Info   *FnInfo
	Block  int
	PC     int
	Prev   int
	Regs   []Value
	Iter   map[int]int // loop header block index -> iterations taken
	Defers []DeferRec
	// Dst is the call instruction in the caller that receives the result (nil: discard)
	Dst ssa.Value
	// Deferred: this frame is a deferred call started by RunDefers/unwinding
	Deferred bool
	// Unwinding: the frame is running its defers because of a panic
	Unwinding bool
	Bindings  []Value
	// OnReturn, if set, is an engine continuation invoked with the results when the frame returns
	OnReturn func(s *State, results Value)
}

type Thread struct {
	Frames    []*Frame
	Panicking Value // non-nil while unwinding
	PanicPos  string
	Recovered bool
	Done      bool
	// Blocked describes what the thread waits for (nil when runnable)
	Blocked *BlockInfo
	ID      int
	// Quiescing: the thread waits in zzvrf.Quiesce for the others to block or finish
	Quiescing bool
	// NoPreempt: the thread was just pre-empted at its current instruction; it executes it next time
	NoPreempt bool
}

type BlockInfo struct {
	Kind string // send | recv | lock | rlock | wg | select
	Obj  int
}

// State is one symbolic state: a path guard, a heap and the threads' stacks.
type State struct {
	G       *Term
	Heap    map[int]Value
	Threads []*Thread
	Cur     int
	Step    int
	PC      []*Term // conjuncts of G in the order they were added (keeps ite conditions local at merges)
	Known   map[string]*Term
	Facts   *FactSet
	NextObj int // per-state allocation counter (see newObj)
	// Preempt: remaining pre-emptions the scheduler may insert before unbuffered channel sends and
	// mutex acquisitions (context-bounded schedule exploration, enabled by zzvrf.Preemptions)
	Preempt int
	Tags    []int // case-split tags (zzvrf.Fork/Join): states with different tags never merge
	key     []int
	dead    bool
}

// Config of an execution.
type Config struct {
	MaxUnwind   int // per-loop iteration bound (per activation)
	MaxDepth    int
	MaxStates   int
	MaxSteps    int
	MaxTerms    int           // term budget (0 = 4,000,000)
	Deadline    time.Duration // wall-clock budget of the symbolic execution (0 = none)
	NoMerge     bool
	Trace       bool
	InitPkgs    []string // package paths whose init functions are executed
	StubPkgs    []string // package path prefixes treated as opaque stubs
	Params      map[string]int64
	LoopBounds  map[string]int // "pkg.Func" -> unwind bound override
	CheckFeasib bool
	Progress    int
}

// Exec is one symbolic execution of a harness instance.
type Exec struct {
	errAlias map[string]int // shared objects of the os / io/fs / oserror sentinel errors
	enum     *Solver        // solver used to enumerate the feasible values of a Fork argument
	// NGo counts executed go statements (a run with goroutines is schedule-dependent natively)
	NGo      int
	started  time.Time
	Prog     *ssa.Program
	tb       *TB
	cfg      Config
	infos    map[*ssa.Function]*FnInfo
	nextFn   int
	nextOb   int
	curSite  int
	allocSeq int
	sites    map[ssa.Instruction]int

	Obligations []*Obligation
	Inputs      []*Input
	inputByName map[string]*Input
	Assumptions []*Term // global (about inputs), asserted once
	AssumeLog   []string

	queue []*State

	globals   map[*ssa.Global]int
	errGlobal map[*ssa.Global]bool
	fresh     int

	// statistics
	NStates, NMerges, NBlocks, NInstr, NForks int
	FnsExecuted                               map[string]int
	StubsHit                                  map[string]int
	Redirects                                 map[string]*ssa.Function // real function name -> model function
	finalStates                               []*State

	feas *Solver // optional feasibility solver

	uf map[string][]ufApp

	TermProf    map[string]int
	bufFieldIdx int // see intr_misc.go (per Exec: instances run in parallel)
	lastClock   *Term
	SymClock    bool
}

type ufApp struct {
	args []Value
	res  Value
}

func NewExec(prog *ssa.Program, cfg Config) *Exec {
	if cfg.MaxUnwind == 0 {
		cfg.MaxUnwind = 40
	}
	if cfg.MaxDepth == 0 {
		cfg.MaxDepth = 64
	}
	if cfg.MaxStates == 0 {
		cfg.MaxStates = 5000000
	}
	x := &Exec{Prog: prog, tb: NewTB(), cfg: cfg, infos: map[*ssa.Function]*FnInfo{},
		inputByName: map[string]*Input{}, globals: map[*ssa.Global]int{}, errGlobal: map[*ssa.Global]bool{},
		FnsExecuted: map[string]int{}, StubsHit: map[string]int{}, Redirects: map[string]*ssa.Function{},
		uf: map[string][]ufApp{}, TermProf: map[string]int{}}
	x.nextOb = 1
	x.started = time.Now()
	x.sites = map[ssa.Instruction]int{}
	return x
}

func (x *Exec) TB() *TB { return x.tb }

// EngineError aborts the harness: the check is broken (exit 2), never a pass.
type EngineError struct{ Msg string }

func (e *EngineError) Error() string { return e.Msg }

func (x *Exec) fail(format string, a ...interface{}) {
	panic(&EngineError{fmt.Sprintf(format, a...)})
}

// newObj allocates a heap object. The object id is a hash of the allocating position: the thread,
// its frame chain (function, call position, loop iteration counters of every live frame) and the
// allocating instruction. States that can merge have equal frame chains by construction, so sibling
// states executing "the same" allocation obtain the same id and, after a merge, the two objects are
// one cell (ite of the contents) instead of a guarded two-target pointer. Ids are unique within a
// state: a position cannot be executed twice in one history without a loop counter changing, and an
// id already present in the heap is never reused (salted re-hash).
func (x *Exec) newObj(v Value, s *State) int {
	const (
		offset = 14695981039346656037
		prime  = 1099511628211
	)
	h := uint64(offset)
	mix := func(n int) {
		h ^= uint64(n) + 0x9e3779b97f4a7c15
		h *= prime
	}
	if len(s.Threads) > 0 {
		t := s.thread()
		mix(t.ID)
		for _, f := range t.Frames {
			mix(f.Info.ID)
			mix(f.Block)
			mix(f.PC)
			for _, hd := range f.Info.Loops[f.Block] {
				mix(hd)
				mix(f.Iter[hd])
			}
		}
	}
	mix(x.curSite)
	var kind func(v Value, d int)
	kind = func(v Value, d int) {
		switch c := v.(type) {
		case *StructVal:
			mix(100 + len(c.F))
			if d > 0 {
				for _, f := range c.F {
					kind(f, d-1)
				}
			}
		case *ArrayVal:
			mix(2)
			if len(c.E) > 0 && d > 0 {
				kind(c.E[0], d-1)
			}
		case *MapObj:
			mix(7)
		case *ChanObj:
			mix(8 + 16*c.Cap)
		case *OpaqueVal:
			mix(9)
		case *Term:
			mix(10 + c.W)
		case *StrVal:
			mix(3)
		case *PtrVal:
			mix(4)
		case *IfaceVal:
			mix(5)
		case *SliceVal:
			mix(6)
		case *FuncVal:
			mix(11)
		case *TupleVal:
			mix(12 + len(c.E))
		}
	}
	kind(v, 2)
	mix(x.allocSeq)
	x.allocSeq++
	for {
		id := int(h>>5) | 1
		if _, used := s.Heap[id]; !used {
			s.Heap[id] = v
			return id
		}
		mix(7)
	}
}

func (x *Exec) siteOf(ins ssa.Instruction) int {
	if n, ok := x.sites[ins]; ok {
		return n
	}
	n := len(x.sites) + 1
	x.sites[ins] = n
	return n
}

func (x *Exec) freshName(prefix string) string {
	x.fresh++
	return fmt.Sprintf("%s!%d", prefix, x.fresh)
}

// ---------- function analysis ----------

func (x *Exec) info(fn *ssa.Function) *FnInfo {
	if fi, ok := x.infos[fn]; ok {
		return fi
	}
	fi := &FnInfo{Fn: fn, ID: x.nextFn, Num: map[ssa.Value]int{}}
	x.nextFn++
	n := 0
	for _, p := range fn.Params {
		fi.Num[p] = n
		n++
	}
	for _, p := range fn.FreeVars {
		fi.Num[p] = n
		n++
	}
	for _, b := range fn.Blocks {
		for _, ins := range b.Instrs {
			if v, ok := ins.(ssa.Value); ok {
				fi.Num[v] = n
				n++
			}
		}
	}
	fi.NRegs = n
	nb := len(fn.Blocks)
	fi.RPO = make([]int, nb)
	fi.NPreds = make([]int, nb)
	for i := range fi.RPO {
		fi.RPO[i] = -1
	}
	// reverse post-order by DFS from entry (and from the recover block)
	visited := make([]bool, nb)
	var post []int
	var dfs func(b *ssa.BasicBlock)
	dfs = func(b *ssa.BasicBlock) {
		visited[b.Index] = true
		for _, s := range b.Succs {
			if !visited[s.Index] {
				dfs(s)
			}
		}
		post = append(post, b.Index)
	}
	if nb > 0 {
		dfs(fn.Blocks[0])
		if fn.Recover != nil && !visited[fn.Recover.Index] {
			dfs(fn.Recover)
		}
	}
	for i, bi := range post {
		fi.RPO[bi] = len(post) - 1 - i
	}
	for _, b := range fn.Blocks {
		fi.NPreds[b.Index] = len(b.Preds)
	}
	// natural loops: back edge u->h where h dominates u
	loopBody := map[int]map[int]bool{}
	for _, b := range fn.Blocks {
		if fi.RPO[b.Index] < 0 {
			continue
		}
		for _, s := range b.Succs {
			back := s.Dominates(b)
			if !back && fi.RPO[s.Index] <= fi.RPO[b.Index] {
				// irreducible or retreating edge: treat target as a loop header as well
				back = true
			}
			if back {
				body := loopBody[s.Index]
				if body == nil {
					body = map[int]bool{s.Index: true}
					loopBody[s.Index] = body
				}
				// walk predecessors from b until the header
				stack := []*ssa.BasicBlock{b}
				for len(stack) > 0 {
					c := stack[len(stack)-1]
					stack = stack[:len(stack)-1]
					if body[c.Index] {
						continue
					}
					body[c.Index] = true
					for _, p := range c.Preds {
						if fi.RPO[p.Index] >= 0 {
							stack = append(stack, p)
						}
					}
				}
			}
		}
	}
	fi.Loops = make([][]int, nb)
	fi.InLoop = make([]map[int]bool, nb)
	var headers []int
	for h := range loopBody {
		headers = append(headers, h)
	}
	// outermost first: larger bodies first; ties by rpo
	sort.Slice(headers, func(i, j int) bool {
		a, b := headers[i], headers[j]
		if len(loopBody[a]) != len(loopBody[b]) {
			return len(loopBody[a]) > len(loopBody[b])
		}
		return fi.RPO[a] < fi.RPO[b]
	})
	for bi := 0; bi < nb; bi++ {
		fi.InLoop[bi] = map[int]bool{}
		for _, h := range headers {
			if loopBody[h][bi] {
				fi.Loops[bi] = append(fi.Loops[bi], h)
				fi.InLoop[bi][h] = true
			}
		}
	}
	x.infos[fn] = fi
	return fi
}

// ---------- state bookkeeping ----------

func (f *Frame) clone() *Frame {
	g := *f
	g.Regs = make([]Value, len(f.Regs))
	copy(g.Regs, f.Regs)
	if len(f.Iter) > 0 {
		g.Iter = make(map[int]int, len(f.Iter))
		for k, v := range f.Iter {
			g.Iter[k] = v
		}
	} else {
		g.Iter = nil
	}
	if len(f.Defers) > 0 {
		g.Defers = append([]DeferRec(nil), f.Defers...)
	}
	return &g
}

func (t *Thread) clone() *Thread {
	u := *t
	u.Frames = make([]*Frame, len(t.Frames))
	for i, f := range t.Frames {
		u.Frames[i] = f.clone()
	}
	if t.Blocked != nil {
		b := *t.Blocked
		u.Blocked = &b
	}
	return &u
}

func (s *State) clone() *State {
	n := &State{G: s.G, Cur: s.Cur, Step: s.Step, Facts: s.Facts.clone(), NextObj: s.NextObj, Preempt: s.Preempt}
	n.PC = append([]*Term(nil), s.PC...)
	n.Tags = append([]int(nil), s.Tags...)
	n.Heap = make(map[int]Value, len(s.Heap)+8)
	for k, v := range s.Heap {
		n.Heap[k] = v
	}
	n.Threads = make([]*Thread, len(s.Threads))
	for i, t := range s.Threads {
		n.Threads[i] = t.clone()
	}
	if len(s.Known) > 0 {
		n.Known = make(map[string]*Term, len(s.Known))
		for k, v := range s.Known {
			n.Known[k] = v
		}
	}
	return n
}

func (s *State) thread() *Thread { return s.Threads[s.Cur] }
func (s *State) top() *Frame {
	t := s.Threads[s.Cur]
	return t.Frames[len(t.Frames)-1]
}

// posKey computes the position of the state in "program order".
func (x *Exec) posKey(s *State) []int {
	if s.key != nil {
		return s.key
	}
	k := make([]int, 0, 64)
	k = append(k, s.Step, s.Cur, s.Preempt)
	for _, t := range s.Threads {
		k = append(k, -7) // thread separator
		st := 0
		if t.Done {
			st = 1
		}
		if t.Blocked != nil {
			st = 2
		}
		if t.Quiescing {
			st += 4
		}
		for _, f := range t.Frames {
			k = append(k, -3, f.Info.ID)
			for _, h := range f.Info.Loops[f.Block] {
				k = append(k, f.Info.RPO[h], f.Iter[h])
			}
			k = append(k, f.Info.RPO[f.Block], f.PC)
			fl := 0
			if f.Unwinding {
				fl = 1
			}
			if f.Deferred {
				fl |= 2
			}
			k = append(k, len(f.Defers), fl)
		}
		p := 0
		if t.Panicking != nil {
			p = 1
		}
		if t.Recovered {
			p |= 2
		}
		k = append(k, -5, st, p)
	}
	k = append(k, -9)
	k = append(k, s.Tags...)
	s.key = k
	return k
}

// cmpKey orders states: smaller = further behind. Within a thread's frame list a deeper stack with
// an equal prefix is behind.
func cmpKey(a, b []int) int {
	n := len(a)
	if len(b) < n {
		n = len(b)
	}
	for i := 0; i < n; i++ {
		if a[i] != b[i] {
			// markers: -3 begins a frame, -5 ends the frame list. A state that still has a frame
			// (-3) where the other has ended (-5) is deeper -> behind.
			if a[i] == -3 && b[i] == -5 {
				return -1
			}
			if a[i] == -5 && b[i] == -3 {
				return 1
			}
			if a[i] < b[i] {
				return -1
			}
			return 1
		}
	}
	if len(a) < len(b) {
		return -1
	}
	if len(a) > len(b) {
		return 1
	}
	return 0
}

func (x *Exec) push(s *State) {
	if s.dead || s.G.IsFalse() {
		return
	}
	s.key = nil
	x.queue = append(x.queue, s)
	x.NStates++
	if x.NStates > x.cfg.MaxStates {
		x.fail("state budget exceeded (%d states)", x.cfg.MaxStates)
	}
	if x.NStates&255 == 0 {
		mt := x.cfg.MaxTerms
		if mt == 0 {
			mt = 4000000
		}
		if x.tb.NTerms > mt {
			x.fail("term budget exceeded (%d terms): inconclusive", mt)
		}
		if x.cfg.Deadline > 0 && time.Since(x.started) > x.cfg.Deadline {
			x.fail("execution time budget exceeded (%s): inconclusive", x.cfg.Deadline)
		}
	}
}

// popGroup removes and returns all states at the minimal position.
func (x *Exec) popGroup() []*State {
	best := 0
	for i := 1; i < len(x.queue); i++ {
		if cmpKey(x.posKey(x.queue[i]), x.posKey(x.queue[best])) < 0 {
			best = i
		}
	}
	bk := x.posKey(x.queue[best])
	var grp []*State
	rest := x.queue[:0]
	for _, s := range x.queue {
		if !x.cfg.NoMerge && cmpKey(x.posKey(s), bk) == 0 && x.mergeable(s, x.queue[best]) {
			grp = append(grp, s)
		} else if x.cfg.NoMerge && s == x.queue[best] {
			grp = append(grp, s)
		} else {
			rest = append(rest, s)
		}
	}
	x.queue = rest
	return grp
}

// mergeable checks details of the shape that the key does not capture.
func (x *Exec) mergeable(a, b *State) bool {
	if a == b {
		return true
	}
	if len(a.Threads) != len(b.Threads) {
		return false
	}
	for i := range a.Threads {
		ta, tb := a.Threads[i], b.Threads[i]
		if len(ta.Frames) != len(tb.Frames) {
			return false
		}
		for j := range ta.Frames {
			fa, fb := ta.Frames[j], tb.Frames[j]
			if fa.Info != fb.Info || fa.Dst != fb.Dst || len(fa.Defers) != len(fb.Defers) {
				return false
			}
			if (fa.OnReturn == nil) != (fb.OnReturn == nil) {
				return false
			}
		}
		if (ta.Blocked == nil) != (tb.Blocked == nil) {
			return false
		}
		if ta.Blocked != nil && *ta.Blocked != *tb.Blocked {
			return false
		}
	}
	return true
}

// merge folds b into a (guards are disjoint).
func (x *Exec) merge(a, b *State) *State {
	x.NMerges++
	if fmt.Sprint(a.Tags) != fmt.Sprint(b.Tags) {
		x.fail("internal: merging states with different tags %v %v", a.Tags, b.Tags)
	}
	if os.Getenv("GOSMT_DEBUGMERGE") != "" && (len(a.Tags) > 0 || len(b.Tags) > 0) {
		fmt.Printf("MERGE tags %v %v at %s\n", a.Tags, b.Tags, x.posOf(a))
	}
	tb := x.tb
	// local selecting condition: drop the common prefix of the two path conditions
	k := 0
	for k < len(a.PC) && k < len(b.PC) && a.PC[k] == b.PC[k] {
		k++
	}
	ca, cb := tb.True, tb.True
	for _, t := range a.PC[k:] {
		ca = tb.And(ca, t)
	}
	for _, t := range b.PC[k:] {
		cb = tb.And(cb, t)
	}
	c := ca // condition selecting a's values
	out := &State{Cur: a.Cur, Step: a.Step, Facts: intersectFacts(a.Facts, b.Facts), Tags: a.Tags, NextObj: a.NextObj, Preempt: a.Preempt}
	if b.NextObj > out.NextObj {
		out.NextObj = b.NextObj
	}
	if ca.IsTrue() || cb.IsTrue() {
		// degenerate (one guard subsumes the other): fall back to full guards
		c = a.G
		out.G = tb.Or(a.G, b.G)
		out.PC = []*Term{out.G}
	} else {
		out.PC = append([]*Term(nil), a.PC[:k]...)
		d := tb.Or(ca, cb)
		g := tb.True
		for _, t := range out.PC {
			g = tb.And(g, t)
		}
		if !d.IsTrue() {
			out.PC = append(out.PC, d)
			g = tb.And(g, d)
		}
		out.G = g
	}
	out.Heap = make(map[int]Value, len(a.Heap)+len(b.Heap))
	for k, v := range a.Heap {
		out.Heap[k] = v
	}
	for k, vb := range b.Heap {
		va, ok := out.Heap[k]
		if !ok {
			out.Heap[k] = vb
			continue
		}
		if va != vb {
			out.Heap[k] = x.iteObj(c, va, vb, k)
		}
	}
	out.Threads = make([]*Thread, len(a.Threads))
	for i := range a.Threads {
		ta, tbb := a.Threads[i], b.Threads[i]
		nt := *ta
		nt.Frames = make([]*Frame, len(ta.Frames))
		for j := range ta.Frames {
			fa, fb := ta.Frames[j], tbb.Frames[j]
			nf := *fa
			nf.Regs = make([]Value, len(fa.Regs))
			for r := range fa.Regs {
				ra, rb := fa.Regs[r], fb.Regs[r]
				switch {
				case ra == nil:
					nf.Regs[r] = rb
				case rb == nil || ra == rb:
					nf.Regs[r] = ra
				default:
					nf.Regs[r] = x.ite(c, ra, rb)
				}
			}
			if len(fa.Defers) > 0 {
				nf.Defers = make([]DeferRec, len(fa.Defers))
				for d := range fa.Defers {
					da, db := fa.Defers[d], fb.Defers[d]
					nd := DeferRec{Method: da.Method}
					if da.Fn != nil {
						nd.Fn = x.ite(c, da.Fn, db.Fn).(*FuncVal)
					}
					if da.Recv != nil {
						nd.Recv = x.ite(c, da.Recv, db.Recv)
					}
					nd.Args = make([]Value, len(da.Args))
					for q := range da.Args {
						nd.Args[q] = x.ite(c, da.Args[q], db.Args[q])
					}
					nf.Defers[d] = nd
				}
			}
			if len(fa.Bindings) > 0 {
				nf.Bindings = make([]Value, len(fa.Bindings))
				for q := range fa.Bindings {
					nf.Bindings[q] = x.ite(c, fa.Bindings[q], fb.Bindings[q])
				}
			}
			nt.Frames[j] = &nf
		}
		if ta.Panicking != nil && tbb.Panicking != nil {
			nt.Panicking = x.ite(c, ta.Panicking, tbb.Panicking)
		}
		out.Threads[i] = &nt
	}
	if len(a.Known) > 0 || len(b.Known) > 0 {
		out.Known = map[string]*Term{}
		for k, v := range a.Known {
			out.Known[k] = tb.And(a.G, v)
		}
		for k, v := range b.Known {
			w := tb.And(b.G, v)
			if o, ok := out.Known[k]; ok {
				out.Known[k] = tb.Or(o, w)
			} else {
				out.Known[k] = w
			}
		}
	}
	return out
}

// iteObj merges two versions of a heap object; a kind mismatch means that two different
// allocations hashed to the same id (they cannot both be live in one concrete run): the engine
// aborts with a diagnostic rather than guess.
func (x *Exec) iteObj(c *Term, a, b Value, id int) (r Value) {
	defer func() {
		if e := recover(); e != nil {
			if _, ok := e.(*EngineError); ok {
				panic(e)
			}
			x.fail("merge of heap object %d failed: %v (a=%s b=%s)", id, e, x.showVal(a), x.showVal(b))
		}
	}()
	return x.ite(c, a, b)
}

// ---------- obligations ----------

func (x *Exec) posOf(s *State) string {
	if len(s.Threads) == 0 || len(s.thread().Frames) == 0 {
		return "?"
	}
	f := s.top()
	b := f.Info.Fn.Blocks[f.Block]
	var p token.Pos
	if f.PC < len(b.Instrs) {
		p = b.Instrs[f.PC].Pos()
	}
	if !p.IsValid() {
		// nearest earlier instruction with a position
		for i := f.PC - 1; i >= 0 && i < len(b.Instrs); i-- {
			if b.Instrs[i].Pos().IsValid() {
				p = b.Instrs[i].Pos()
				break
			}
		}
	}
	pos := x.Prog.Fset.Position(p)
	fn := f.Info.Fn.String()
	if pos.IsValid() {
		return fmt.Sprintf("%s (%s:%d)", fn, shortFile(pos.Filename), pos.Line)
	}
	return fn
}

func shortFile(f string) string {
	if i := strings.Index(f, "/pkg/"); i >= 0 {
		return f[i+1:]
	}
	if i := strings.LastIndex(f, "/src/"); i >= 0 {
		return f[i+5:]
	}
	return f
}

func (x *Exec) oblige(s *State, kind, label string, cond *Term) {
	if cond.IsFalse() && kind != "cover" {
		return
	}
	o := &Obligation{Kind: kind, Label: label, Pos: x.posOf(s), Cond: cond}
	if len(s.Known) > 0 {
		o.Known = map[string]*Term{}
		for k, v := range s.Known {
			o.Known[k] = v
		}
	}
	x.Obligations = append(x.Obligations, o)
}

// panicIf records that the current state panics when cond holds. Returns false if the state is dead
// afterwards (cond is always true on this path).
func (x *Exec) panicIf(s *State, cond *Term, what string) bool {
	if cond.IsFalse() {
		return true
	}
	if x.implied(s, cond) == -1 {
		return true
	}
	g := x.tb.And(s.G, cond)
	if !g.IsFalse() {
		x.raise(s, g, what, nil)
	}
	return x.constrain(s, x.tb.Not(cond))
}

// constrain adds c to the path condition of s. Returns false if the state became infeasible.
func (x *Exec) constrain(s *State, c *Term) bool {
	if c.IsTrue() {
		return true
	}
	s.G = x.tb.And(s.G, c)
	if s.G.IsFalse() {
		s.dead = true
		return false
	}
	s.PC = append(s.PC, c)
	x.addFact(s, c)
	return true
}

// raise starts a panic under guard g (a sub-guard of s.G). If no frame of the thread has deferred
// calls pending the panic reaches the top of the goroutine: an obligation. Otherwise a panicking
// copy of the state unwinds.
func (x *Exec) raise(s *State, g *Term, what string, val Value) {
	t := s.thread()
	has := false
	for _, f := range t.Frames {
		if len(f.Defers) > 0 || f.Deferred {
			has = true
			break
		}
	}
	if !has {
		ob := &Obligation{Kind: "panic", Label: what, Pos: x.posOf(s), Cond: g}
		if len(s.Known) > 0 {
			ob.Known = map[string]*Term{}
			for k, v := range s.Known {
				ob.Known[k] = v
			}
		}
		x.Obligations = append(x.Obligations, ob)
		return
	}
	ps := s.clone()
	ps.G = g
	ps.PC = []*Term{g}
	pt := ps.thread()
	if val == nil {
		val = &IfaceVal{Alts: []IfaceAlt{{G: x.tb.True, T: types.Typ[types.String], V: x.str(what)}}}
	}
	pt.Panicking = val
	pt.PanicPos = what + " at " + x.posOf(s)
	pt.Recovered = false
	ps.top().Unwinding = true
	x.push(ps)
}

// ---------- top level ----------

// Run executes fn with the given arguments from an empty heap (after package initialisers) and
// drains the work list.
func (x *Exec) Run(fn *ssa.Function, args []Value) {
	s := &State{G: x.tb.True, Heap: map[int]Value{}}
	s.Threads = []*Thread{{ID: 0}}
	// package initialisers
	for _, p := range x.cfg.InitPkgs {
		pkg := x.Prog.ImportedPackage(p)
		if pkg == nil {
			continue
		}
		initFn := pkg.Func("init")
		if initFn == nil {
			continue
		}
		s = x.runToCompletion(s, initFn, nil)
	}
	x.finalStates = nil
	x.pushFrame(s, fn, args, nil, nil)
	x.push(s)
	x.drain()
}

// runToCompletion executes fn on s and returns the single merged final state.
func (x *Exec) runToCompletion(s *State, fn *ssa.Function, args []Value) *State {
	x.finalStates = nil
	x.pushFrame(s, fn, args, nil, nil)
	x.push(s)
	x.drain()
	if len(x.finalStates) == 0 {
		x.fail("initialiser %s did not terminate normally", fn)
	}
	r := x.finalStates[0]
	for _, o := range x.finalStates[1:] {
		r = x.merge(r, o)
	}
	x.finalStates = nil
	// goroutines started by the initialiser (e.g. an id generator) live on, blocked where they are
	r.Threads[0] = &Thread{ID: 0}
	r.Cur = 0
	r.G = x.tb.True
	r.PC = nil
	r.Facts = nil
	return r
}

func (x *Exec) drain() {
	steps := 0
	for len(x.queue) > 0 {
		grp := x.popGroup()
		s := grp[0]
		nb := x.tb.NTerms
		for _, o := range grp[1:] {
			s = x.merge(s, o)
		}
		if len(grp) > 1 && x.TermProf != nil && os.Getenv("GOSMT_PROFTERMS") != "" {
			x.TermProf["MERGE at "+x.posOf(s)] += x.tb.NTerms - nb
		}
		s.key = nil
		if x.cfg.Trace || (x.cfg.Progress > 0 && steps%x.cfg.Progress == 0) {
			fmt.Printf("[step %d] queue=%d group=%d terms=%d pos=%s\n", steps, len(x.queue), len(grp), x.tb.NTerms, x.posOf(s))
		}
		x.runState(s)
		steps++
		if x.cfg.MaxSteps > 0 && steps > x.cfg.MaxSteps {
			x.fail("step budget exceeded")
		}
	}
}

func (x *Exec) pushFrame(s *State, fn *ssa.Function, args []Value, bindings []Value, dst ssa.Value) *Frame {
	fi := x.info(fn)
	t := s.thread()
	if len(t.Frames) >= x.cfg.MaxDepth {
		x.fail("call depth exceeded at %s", fn)
	}
	if len(fn.Blocks) == 0 {
		x.fail("function without body and without intrinsic: %s", fn)
	}
	f := &Frame{Info: fi, Regs: make([]Value, fi.NRegs), Dst: dst, Bindings: bindings}
	if len(args) != len(fn.Params) {
		x.fail("arity mismatch calling %s: %d args, %d params", fn, len(args), len(fn.Params))
	}
	for i, p := range fn.Params {
		f.Regs[fi.Num[p]] = args[i]
	}
	for i, fv := range fn.FreeVars {
		f.Regs[fi.Num[fv]] = bindings[i]
	}
	t.Frames = append(t.Frames, f)
	x.FnsExecuted[fn.String()]++
	return f
}
