package sx

import (
	"fmt"
	"go/types"
	"time"

	"golang.org/x/tools/go/ssa"
)

// VrfPkg is the import path of the harness support package (exists only in the overlay).
const VrfPkg = "github.com/inbucket/inbucket/v3/pkg/zzvrf"

func (x *Exec) concreteName(v Value) string {
	s, ok := x.concreteStr(v.(*StrVal))
	if !ok {
		x.fail("zzvrf: input names must be concrete strings")
	}
	return s
}

func (x *Exec) concreteInt(v Value, what string) int64 {
	t := v.(*Term)
	if !t.IsConst() {
		x.fail("zzvrf: %s must be concrete", what)
	}
	return t.SVal()
}

func (x *Exec) addInput(in *Input) *Input {
	if old, ok := x.inputByName[in.Name]; ok {
		return old
	}
	x.inputByName[in.Name] = in
	x.Inputs = append(x.Inputs, in)
	return in
}

// symString creates (or returns) the named symbolic string input.
func (x *Exec) symString(name string, n int, exact bool) *StrVal {
	tb := x.tb
	if old, ok := x.inputByName[name]; ok {
		return &StrVal{B: old.B, Len: old.Len}
	}
	in := &Input{Name: name, Kind: "string", N: n}
	in.B = make([]*Term, n)
	for i := range in.B {
		in.B[i] = tb.Var(fmt.Sprintf("%s#%d", name, i), 8)
	}
	if exact || n == 0 {
		in.Len = tb.Int64(int64(n))
	} else {
		lv := tb.Var(name+"#len", 8)
		x.Assumptions = append(x.Assumptions, tb.ULe(lv, tb.BV(8, uint64(n))))
		tb.VarRange(name+"#len", 8, 0, uint64(n))
		in.Len = tb.ZExt(lv, 64)
	}
	x.addInput(in)
	return &StrVal{B: in.B, Len: in.Len}
}

func (x *Exec) symInt(name string, lo, hi int64) *Term {
	tb := x.tb
	if old, ok := x.inputByName[name]; ok {
		return old.T
	}
	in := &Input{Name: name, Kind: "int", W: 64, Lo: lo, Hi: hi}
	if lo >= 0 && hi < 256 {
		v := tb.Var(name, 8)
		x.Assumptions = append(x.Assumptions, tb.ULe(v, tb.BV(8, uint64(hi))))
		if lo > 0 {
			x.Assumptions = append(x.Assumptions, tb.ULe(tb.BV(8, uint64(lo)), v))
		}
		tb.VarRange(name, 8, uint64(lo), uint64(hi))
		in.T = tb.ZExt(v, 64)
		in.W = 8
	} else if lo >= 0 && hi < 65536 {
		v := tb.Var(name, 16)
		x.Assumptions = append(x.Assumptions, tb.ULe(v, tb.BV(16, uint64(hi))))
		if lo > 0 {
			x.Assumptions = append(x.Assumptions, tb.ULe(tb.BV(16, uint64(lo)), v))
		}
		tb.VarRange(name, 16, uint64(lo), uint64(hi))
		in.T = tb.ZExt(v, 64)
		in.W = 16
	} else {
		v := tb.Var(name, 64)
		in.T = v
		x.Assumptions = append(x.Assumptions, tb.SLe(tb.Int64(lo), v), tb.SLe(v, tb.Int64(hi)))
	}
	x.addInput(in)
	return in.T
}

func init() {
	p := VrfPkg + "."
	RegisterIntrinsic(p+"Bool", func(x *Exec, s *State, c *CallCtx) Value {
		name := x.concreteName(c.Args[0])
		if old, ok := x.inputByName[name]; ok {
			return old.T
		}
		in := &Input{Name: name, Kind: "bool", T: x.tb.Var(name, 0)}
		x.addInput(in)
		return in.T
	})
	RegisterIntrinsic(p+"Byte", func(x *Exec, s *State, c *CallCtx) Value {
		name := x.concreteName(c.Args[0])
		if old, ok := x.inputByName[name]; ok {
			return old.T
		}
		in := &Input{Name: name, Kind: "byte", W: 8, T: x.tb.Var(name, 8)}
		x.addInput(in)
		return in.T
	})
	RegisterIntrinsic(p+"Int", func(x *Exec, s *State, c *CallCtx) Value {
		return x.symInt(x.concreteName(c.Args[0]), x.concreteInt(c.Args[1], "lo"), x.concreteInt(c.Args[2], "hi"))
	})
	RegisterIntrinsic(p+"Int64", func(x *Exec, s *State, c *CallCtx) Value {
		name := x.concreteName(c.Args[0])
		if old, ok := x.inputByName[name]; ok {
			return old.T
		}
		in := &Input{Name: name, Kind: "int", W: 64, T: x.tb.Var(name, 64), Lo: -1 << 63, Hi: 1<<63 - 1}
		x.addInput(in)
		return in.T
	})
	RegisterIntrinsic(p+"Choose", func(x *Exec, s *State, c *CallCtx) Value {
		n := x.concreteInt(c.Args[1], "n")
		return x.symInt(x.concreteName(c.Args[0]), 0, n-1)
	})
	RegisterIntrinsic(p+"String", func(x *Exec, s *State, c *CallCtx) Value {
		return x.symString(x.concreteName(c.Args[0]), int(x.concreteInt(c.Args[1], "maxLen")), false)
	})
	RegisterIntrinsic(p+"Digits", func(x *Exec, s *State, c *CallCtx) Value {
		name := x.concreteName(c.Args[0])
		n := int(x.concreteInt(c.Args[1], "n"))
		fresh := x.inputByName[name] == nil
		sv := x.symString(name, n, true)
		if fresh {
			for _, b := range sv.B {
				x.Assumptions = append(x.Assumptions, x.tb.ULe(x.tb.BV(8, '0'), b), x.tb.ULe(b, x.tb.BV(8, '9')))
				x.tb.VarRange(b.Name, 8, '0', '9')
			}
		}
		return sv
	})
	RegisterIntrinsic(p+"StringN", func(x *Exec, s *State, c *CallCtx) Value {
		return x.symString(x.concreteName(c.Args[0]), int(x.concreteInt(c.Args[1], "n")), true)
	})
	RegisterIntrinsic(p+"Bytes", func(x *Exec, s *State, c *CallCtx) Value {
		sv := x.symString(x.concreteName(c.Args[0]), int(x.concreteInt(c.Args[1], "maxLen")), false)
		return x.strToBytes(s, sv)
	})
	RegisterIntrinsic(p+"Assume", func(x *Exec, s *State, c *CallCtx) Value {
		cond := c.Args[0].(*Term)
		x.AssumeLog = append(x.AssumeLog, x.posOfCaller(s))
		x.constrain(s, cond)
		return nil
	})
	RegisterIntrinsic(p+"Assert", func(x *Exec, s *State, c *CallCtx) Value {
		label := x.concreteName(c.Args[0])
		cond := c.Args[1].(*Term)
		x.oblige(s, "assert", label, x.tb.And(s.G, x.tb.Not(cond)))
		return nil
	})
	RegisterIntrinsic(p+"Cover", func(x *Exec, s *State, c *CallCtx) Value {
		x.oblige(s, "cover", x.concreteName(c.Args[0]), s.G)
		return nil
	})
	RegisterIntrinsic(p+"CoverIf", func(x *Exec, s *State, c *CallCtx) Value {
		x.oblige(s, "cover", x.concreteName(c.Args[0]), x.tb.And(s.G, c.Args[1].(*Term)))
		return nil
	})
	RegisterIntrinsic(p+"Known", func(x *Exec, s *State, c *CallCtx) Value {
		id := x.concreteName(c.Args[0])
		cond := c.Args[1].(*Term)
		if s.Known == nil {
			s.Known = map[string]*Term{}
		}
		if old, ok := s.Known[id]; ok {
			s.Known[id] = x.tb.Or(old, cond)
		} else {
			s.Known[id] = cond
		}
		return nil
	})
	// Fork(v): case split on the small-range integer v. The state is split into one state per
	// feasible value, each tagged so that they are not merged again before the matching Join().
	// Quiesce lets every other runnable goroutine run until it blocks or ends, then continues.
	blockingIntrinsics[p+"Quiesce"] = func(x *Exec, s *State, c *CallCtx) (Value, bool) {
		me := s.thread()
		for i, t := range s.Threads {
			if i != s.Cur && !t.Done && t.Blocked == nil && !t.Quiescing {
				me.Quiescing = true
				s.Cur = i
				x.push(s)
				return nil, true
			}
		}
		me.Quiescing = false
		return nil, false
	}
	RegisterIntrinsic(p+"Preemptions", func(x *Exec, s *State, c *CallCtx) Value {
		s.Preempt = int(x.concreteInt(c.Args[0], "n"))
		return nil
	})
	blockingIntrinsics[p+"Yield"] = func(x *Exec, s *State, c *CallCtx) (Value, bool) {
		// a voluntary scheduling point: every other runnable thread may run first
		x.maybePreemptFree(s)
		return nil, false
	}
	blockingIntrinsics[p+"PreemptPoint"] = func(x *Exec, s *State, c *CallCtx) (Value, bool) {
		// a scheduling point that costs one unit of the pre-emption budget when taken
		x.maybePreempt(s)
		return nil, false
	}
	blockingIntrinsics[p+"Regroup"] = func(x *Exec, s *State, c *CallCtx) (Value, bool) {
		// Regroup(v) = Join immediately followed by Fork(v), without merging in between: states
		// regroup by the value v
		s.Tags = nil
		return blockingIntrinsics[p+"Fork"](x, s, c)
	}
	blockingIntrinsics[p+"Fork"] = func(x *Exec, s *State, c *CallCtx) (Value, bool) {
		v := c.Args[0].(*Term)
		if v.IsConst() {
			s.Tags = append(s.Tags, int(v.K))
			return v, false
		}
		var values []uint64
		if leaves := iteLeaves(v, 64); leaves != nil {
			values = leaves
		} else {
			if v.Hi-v.Lo > 256 {
				// not a small range syntactically: ask the solver which values are possible on
				// this path (at most 64 of them)
				values = x.enumValues(s, v, 64)
				if values == nil {
					showDepth = 8
					x.fail("zzvrf.Fork on a value with range [%d,%d] and more than 64 feasible values: %s", v.Lo, v.Hi, x.tb.Show(v))
				}
			} else {
				for k := v.Lo; k <= v.Hi; k++ {
					values = append(values, k)
				}
			}
		}
		dst, _ := c.Instr.(*ssa.Call)
		for _, k := range values {
			ns := s.clone()
			kv := x.tb.BV(v.W, k)
			if !x.constrain(ns, x.tb.Eq(v, kv)) {
				continue
			}
			ns.Tags = append(ns.Tags, int(k))
			nf := ns.top()
			if dst != nil {
				x.set(nf, dst, kv)
			}
			nf.PC++
			x.push(ns)
		}
		s.dead = true
		return nil, true
	}
	RegisterIntrinsic(p+"Join", func(x *Exec, s *State, c *CallCtx) Value {
		// Join ends every case split in force
		s.Tags = nil
		// re-queue so that sibling states reaching this point are merged
		return nil
	})
	RegisterIntrinsic(p+"Symbolic", func(x *Exec, s *State, c *CallCtx) Value { return x.tb.True })
	// PeekBool(p interface{}, field string) bool: load a (promoted, unexported) bool field
	RegisterIntrinsic(p+"PeekBool", func(x *Exec, s *State, c *CallCtx) Value {
		a := singleAlt(x, c.Args[0].(*IfaceVal), "PeekBool")
		name := x.mustConcreteStr(c.Args[1], "PeekBool field")
		pt, ok := a.T.Underlying().(*types.Pointer)
		if !ok {
			x.fail("PeekBool: not a pointer")
		}
		var pkg *types.Package
		if nt, ok := pt.Elem().(*types.Named); ok {
			pkg = nt.Obj().Pkg()
		}
		obj, index, _ := types.LookupFieldOrMethod(pt.Elem(), true, pkg, name)
		if _, ok := obj.(*types.Var); !ok {
			x.fail("PeekBool: no field %s in %s", name, pt.Elem())
		}
		cur := a.V.(*PtrVal)
		for _, i := range index {
			fa, ok := x.fieldAddr(s, cur, i)
			if !ok {
				return nil
			}
			cur = fa.(*PtrVal)
		}
		v, ok := x.load(s, cur, obj.Type())
		if !ok {
			return nil
		}
		return v
	})
	RegisterIntrinsic(p+"Unreachable", func(x *Exec, s *State, c *CallCtx) Value {
		x.oblige(s, "assert", "unreachable: "+x.concreteName(c.Args[0]), s.G)
		return nil
	})
	RegisterIntrinsic(p+"ZeroBytes", func(x *Exec, s *State, c *CallCtx) Value {
		// a byte slice of the given length whose content (all zero) is never materialised
		n := c.Args[0].(*Term)
		id := x.newObj(&ArrayVal{E: []Value{}}, s)
		return &SliceVal{Ptr: x.ptrTo(id, 0), Len: n, Cap: n}
	})
	RegisterIntrinsic(p+"LenOnly", func(x *Exec, s *State, c *CallCtx) Value {
		// a byte slice of arbitrary (64-bit non-negative) length whose content is never read
		name := x.concreteName(c.Args[0])
		var l *Term
		if old, ok := x.inputByName[name]; ok {
			l = old.T
		} else {
			l = x.tb.Var(name, 64)
			x.Assumptions = append(x.Assumptions, x.tb.SLe(x.tb.Int64(0), l))
			x.addInput(&Input{Name: name, Kind: "int", W: 64, T: l, Lo: 0, Hi: 1<<63 - 1})
		}
		id := x.newObj(&ArrayVal{E: []Value{}}, s)
		return &SliceVal{Ptr: x.ptrTo(id, 0), Len: l, Cap: l}
	})
}

// iteLeaves returns the distinct constant leaves of an ite tree (nil if v is not such a tree or has
// more than max leaves).
func iteLeaves(v *Term, max int) []uint64 {
	seen := map[uint64]bool{}
	var out []uint64
	var rec func(t *Term, d int) bool
	rec = func(t *Term, d int) bool {
		if t.IsConst() {
			if !seen[t.K] {
				seen[t.K] = true
				out = append(out, t.K)
			}
			return len(out) <= max
		}
		if t.Op != OpIte || d == 0 {
			return false
		}
		return rec(t.B, d-1) && rec(t.C, d-1)
	}
	if v.IsConst() || !rec(v, 16) {
		return nil
	}
	return out
}

func (x *Exec) posOfCaller(s *State) string {
	return x.posOf(s)
}

// termVars collects the variables a term depends on.
func termVars(t *Term, seen map[int]bool, out *[]*Term) {
	if t == nil || seen[t.ID] {
		return
	}
	seen[t.ID] = true
	if t.Op == OpVar {
		*out = append(*out, t)
		return
	}
	termVars(t.A, seen, out)
	termVars(t.B, seen, out)
	termVars(t.C, seen, out)
}

// enumValues returns the values v can take under the path condition of s (nil if there are more
// than max, or the solver cannot tell).
func (x *Exec) enumValues(s *State, v *Term, max int) []uint64 {
	if x.enum == nil {
		sv, err := NewSolver("z3-new", x.tb)
		if err != nil {
			return nil
		}
		x.enum = sv
	}
	tb := x.tb
	base := tb.True
	for _, a := range x.Assumptions {
		base = tb.And(base, a)
	}
	var vars []*Term
	termVars(v, map[int]bool{}, &vars)
	cond := s.G
	var out []uint64
	for len(out) <= max {
		r, m, err := x.enum.Check(10*time.Second, vars, base, cond)
		if err != nil || r == Unknown {
			return nil
		}
		if r == Unsat {
			return out
		}
		val := tb.Eval(v, m, map[int]uint64{})
		out = append(out, val)
		cond = tb.And(cond, tb.Not(tb.Eq(v, tb.BV(v.W, val))))
	}
	return nil
}
