package sx

// FactSet holds literals implied by a state's path guard (branch conditions and assumptions taken
// on every path merged into the state) plus unsigned bounds derived from them. It is used only to
// discharge obligations and branches syntactically (a missed fact costs a solver query, never
// soundness).
type FactSet struct {
	True map[int]struct{} // ids of bool terms known to hold
	LB   map[int]uint64   // unsigned lower bounds of bit-vector terms
	UB   map[int]uint64   // unsigned upper bounds
}

func newFacts() *FactSet {
	return &FactSet{True: map[int]struct{}{}, LB: map[int]uint64{}, UB: map[int]uint64{}}
}

func (f *FactSet) clone() *FactSet {
	if f == nil {
		return nil
	}
	n := &FactSet{True: make(map[int]struct{}, len(f.True)), LB: make(map[int]uint64, len(f.LB)), UB: make(map[int]uint64, len(f.UB))}
	for k := range f.True {
		n.True[k] = struct{}{}
	}
	for k, v := range f.LB {
		n.LB[k] = v
	}
	for k, v := range f.UB {
		n.UB[k] = v
	}
	return n
}

func intersectFacts(a, b *FactSet) *FactSet {
	if a == nil || b == nil {
		return newFacts()
	}
	n := newFacts()
	for k := range a.True {
		if _, ok := b.True[k]; ok {
			n.True[k] = struct{}{}
		}
	}
	for k, v := range a.LB {
		if w, ok := b.LB[k]; ok {
			n.LB[k] = min64(v, w)
		}
	}
	for k, v := range a.UB {
		if w, ok := b.UB[k]; ok {
			n.UB[k] = max64(v, w)
		}
	}
	return n
}

func (x *Exec) lb(s *State, t *Term) uint64 {
	l := t.Lo
	if s.Facts != nil {
		if v, ok := s.Facts.LB[t.ID]; ok && v > l {
			l = v
		}
	}
	return l
}

func (x *Exec) ub(s *State, t *Term) uint64 {
	u := t.Hi
	if s.Facts != nil {
		if v, ok := s.Facts.UB[t.ID]; ok && v < u {
			u = v
		}
	}
	return u
}

// addFact records that c holds in s.
func (x *Exec) addFact(s *State, c *Term) {
	if c.IsConst() {
		return
	}
	if s.Facts == nil {
		s.Facts = newFacts()
	}
	if c.Op == OpAnd && len(s.Facts.True) < 4096 {
		s.Facts.True[c.ID] = struct{}{}
		x.addFact(s, c.A)
		x.addFact(s, c.B)
		return
	}
	s.Facts.True[c.ID] = struct{}{}
	neg := false
	a := c
	if c.Op == OpNot {
		neg = true
		a = c.A
	}
	if a.Op == OpULt {
		l, r := a.A, a.B
		if !neg {
			// l < r  =>  r >= lb(l)+1 ; l <= ub(r)-1
			if v := x.lb(s, l) + 1; v > x.lb(s, r) && v != 0 {
				s.Facts.LB[r.ID] = v
			}
			if u := x.ub(s, r); u > 0 && u-1 < x.ub(s, l) {
				s.Facts.UB[l.ID] = u - 1
			}
		} else {
			// l >= r
			if v := x.lb(s, r); v > x.lb(s, l) {
				s.Facts.LB[l.ID] = v
			}
			if u := x.ub(s, l); u < x.ub(s, r) {
				s.Facts.UB[r.ID] = u
			}
		}
	}
	if a.Op == OpEq && neg && a.A.W > 0 {
		// t != k where k is the current lower bound: lower bound moves up
		t, k := a.A, a.B
		if t.IsConst() {
			t, k = k, t
		}
		if k.IsConst() && x.lb(s, t) == k.K && k.K != ^uint64(0) {
			s.Facts.LB[t.ID] = k.K + 1
		}
	}
	if a.Op == OpEq && !neg && a.A.W > 0 {
		if a.B.IsConst() {
			s.Facts.LB[a.A.ID], s.Facts.UB[a.A.ID] = a.B.K, a.B.K
		} else if a.A.IsConst() {
			s.Facts.LB[a.B.ID], s.Facts.UB[a.B.ID] = a.A.K, a.A.K
		}
	}
}

// implied reports whether c is known to hold (1), known not to hold (-1) or undetermined (0).
func (x *Exec) implied(s *State, c *Term) int { return x.impliedD(s, c, 4) }

func (x *Exec) impliedD(s *State, c *Term, depth int) int {
	if c.IsConst() {
		if c.K == 1 {
			return 1
		}
		return -1
	}
	if s.Facts != nil {
		if _, ok := s.Facts.True[c.ID]; ok {
			return 1
		}
		if n := x.tb.peekNot(c); n != nil {
			if _, ok := s.Facts.True[n.ID]; ok {
				return -1
			}
		}
	}
	if depth == 0 {
		return 0
	}
	switch c.Op {
	case OpNot:
		return -x.impliedD(s, c.A, depth-1)
	case OpAnd:
		a, b := x.impliedD(s, c.A, depth-1), x.impliedD(s, c.B, depth-1)
		if a == -1 || b == -1 {
			return -1
		}
		if a == 1 && b == 1 {
			return 1
		}
	case OpOr:
		a, b := x.impliedD(s, c.A, depth-1), x.impliedD(s, c.B, depth-1)
		if a == 1 || b == 1 {
			return 1
		}
		if a == -1 && b == -1 {
			return -1
		}
	case OpULt:
		if x.ub(s, c.A) < x.lb(s, c.B) {
			return 1
		}
		if x.lb(s, c.A) >= x.ub(s, c.B) {
			return -1
		}
	case OpEq:
		if c.A.W > 0 {
			if x.ub(s, c.A) < x.lb(s, c.B) || x.ub(s, c.B) < x.lb(s, c.A) {
				return -1
			}
		}
	}
	return 0
}
