package sx

import (
	"bufio"
	"fmt"
	"io"
	"os"
	"os/exec"
	"strconv"
	"strings"
	"sync"
	"time"
)

// Solver is one long-lived SMT solver process fed through stdin. Definitions of terms are emitted
// once at the base level; each query is push/assert/check-sat/pop.
type Solver struct {
	Name    string
	cmd     *exec.Cmd
	in      io.WriteCloser
	out     *bufio.Reader
	defined map[int]bool
	tb      *TB
	mu      sync.Mutex
	Queries int
	Time    time.Duration
	dead    bool
	argv    []string
	// Log, when non-nil, receives the SMT-LIB text sent to the solver.
	Log io.Writer
}

var SolverCmds = map[string][]string{
	"z3":     {"z3", "-in"},
	"z3-new": {"z3-new", "-in"},
	"cvc5":   {"cvc5", "--incremental", "--produce-models", "--lang", "smt2"},
}

func NewSolver(name string, tb *TB) (*Solver, error) {
	argv, ok := SolverCmds[name]
	if !ok {
		return nil, fmt.Errorf("unknown solver %q", name)
	}
	s := &Solver{Name: name, tb: tb, argv: argv}
	if lp := os.Getenv("GOSMT_SMTLOG"); lp != "" {
		f, _ := os.Create(lp)
		s.Log = f
	}
	if err := s.start(); err != nil {
		return nil, err
	}
	return s, nil
}

func (s *Solver) start() error {
	s.cmd = exec.Command(s.argv[0], s.argv[1:]...)
	in, err := s.cmd.StdinPipe()
	if err != nil {
		return err
	}
	out, err := s.cmd.StdoutPipe()
	if err != nil {
		return err
	}
	s.cmd.Stderr = s.cmd.Stdout
	if err := s.cmd.Start(); err != nil {
		return err
	}
	s.in = in
	s.out = bufio.NewReaderSize(out, 1<<20)
	s.defined = map[int]bool{}
	s.dead = false
	s.send("(set-option :produce-models true)\n")
	// QF_BV selects the bit-blasting tactic (10x faster here than the default core); only
	// bit-vector operators are ever emitted, and any "(error" reply makes a query inconclusive.
	s.send("(set-logic QF_BV)\n")
	return nil
}

func (s *Solver) send(text string) {
	if s.Log != nil {
		io.WriteString(s.Log, text)
	}
	io.WriteString(s.in, text)
}

func (s *Solver) Close() {
	if s.cmd != nil && s.cmd.Process != nil {
		s.in.Close()
		s.cmd.Process.Kill()
		s.cmd.Wait()
	}
}

func sortName(w int) string {
	if w == 0 {
		return "Bool"
	}
	return fmt.Sprintf("(_ BitVec %d)", w)
}

func tname(t *Term) string { return "t" + strconv.Itoa(t.ID) }

func bvLit(w int, k uint64) string {
	if w%4 == 0 {
		return fmt.Sprintf("#x%0*x", w/4, k)
	}
	return fmt.Sprintf("#b%0*b", w, k)
}

func quoteSym(n string) string { return "|" + strings.ReplaceAll(n, "|", "_") + "|" }

func ref(t *Term) string {
	switch t.Op {
	case OpConst:
		if t.W == 0 {
			if t.K == 1 {
				return "true"
			}
			return "false"
		}
		return bvLit(t.W, t.K)
	case OpVar:
		return quoteSym(t.Name)
	}
	return tname(t)
}

// define emits definitions for every not-yet-defined node under t (iteratively, post-order).
func (s *Solver) define(t *Term, sb *strings.Builder) {
	type fr struct {
		t *Term
		i int
	}
	if t.Op == OpConst || s.defined[t.ID] {
		return
	}
	stack := []fr{{t, 0}}
	for len(stack) > 0 {
		f := &stack[len(stack)-1]
		kids := [3]*Term{f.t.A, f.t.B, f.t.C}
		pushed := false
		for f.i < 3 {
			k := kids[f.i]
			f.i++
			if k != nil && k.Op != OpConst && !s.defined[k.ID] {
				stack = append(stack, fr{k, 0})
				pushed = true
				break
			}
		}
		if pushed {
			continue
		}
		n := f.t
		stack = stack[:len(stack)-1]
		if s.defined[n.ID] {
			continue
		}
		s.defined[n.ID] = true
		switch n.Op {
		case OpVar:
			fmt.Fprintf(sb, "(declare-const %s %s)\n", quoteSym(n.Name), sortName(n.W))
		case OpExtract:
			fmt.Fprintf(sb, "(define-fun %s () %s ((_ extract %d %d) %s))\n", tname(n), sortName(n.W), n.K>>16, n.K&0xffff, ref(n.A))
		case OpZExt:
			fmt.Fprintf(sb, "(define-fun %s () %s ((_ zero_extend %d) %s))\n", tname(n), sortName(n.W), n.K, ref(n.A))
		case OpSExt:
			fmt.Fprintf(sb, "(define-fun %s () %s ((_ sign_extend %d) %s))\n", tname(n), sortName(n.W), n.K, ref(n.A))
		default:
			fmt.Fprintf(sb, "(define-fun %s () %s (%s", tname(n), sortName(n.W), opNames[n.Op])
			for _, k := range kids {
				if k != nil {
					sb.WriteString(" ")
					sb.WriteString(ref(k))
				}
			}
			sb.WriteString("))\n")
		}
	}
}

// Result of a check.
type Result int

const (
	Unsat Result = iota
	Sat
	Unknown
)

func (r Result) String() string { return [...]string{"unsat", "sat", "unknown"}[r] }

// Check decides the conjunction of the given terms. If wantModel is non-nil and the result is sat,
// the values of those variables are returned (bools as 0/1).
func (s *Solver) Check(timeout time.Duration, wantModel []*Term, conj ...*Term) (Result, map[string]uint64, error) {
	s.mu.Lock()
	defer s.mu.Unlock()
	t0 := time.Now()
	defer func() { s.Time += time.Since(t0); s.Queries++ }()
	// trivial cases decided syntactically
	all := s.tb.True
	for _, c := range conj {
		all = s.tb.And(all, c)
	}
	if all.IsFalse() {
		return Unsat, nil, nil
	}
	if s.dead {
		if err := s.start(); err != nil {
			return Unknown, nil, err
		}
	}
	var sb strings.Builder
	for _, c := range conj {
		s.define(c, &sb)
	}
	for _, v := range wantModel {
		s.define(v, &sb)
	}
	ms := int(timeout / time.Millisecond)
	if s.Name == "cvc5" {
		fmt.Fprintf(&sb, "(set-option :tlimit-per %d)\n", ms)
	} else {
		fmt.Fprintf(&sb, "(set-option :timeout %d)\n", ms)
	}
	sb.WriteString("(push 1)\n")
	for _, c := range conj {
		fmt.Fprintf(&sb, "(assert %s)\n", ref(c))
	}
	sb.WriteString("(check-sat)\n")
	s.send(sb.String())
	line, err := s.readLineDeadline(timeout + 20*time.Second)
	if err != nil {
		s.kill()
		return Unknown, nil, nil
	}
	res := Unknown
	switch strings.TrimSpace(line) {
	case "sat":
		res = Sat
	case "unsat":
		res = Unsat
	case "unknown", "timeout":
		res = Unknown
	default:
		// error or unexpected output: inconclusive, restart solver to resynchronise
		s.kill()
		return Unknown, nil, fmt.Errorf("solver %s: unexpected output %q", s.Name, line)
	}
	var model map[string]uint64
	if res == Sat && len(wantModel) > 0 {
		var q strings.Builder
		q.WriteString("(get-value (")
		for _, v := range wantModel {
			q.WriteString(ref(v))
			q.WriteString(" ")
		}
		q.WriteString("))\n")
		s.send(q.String())
		txt, err := s.readSexp(30 * time.Second)
		if err != nil {
			s.kill()
			return res, nil, err
		}
		model = parseModel(txt)
	}
	s.send("(pop 1)\n")
	return res, model, nil
}

func (s *Solver) kill() {
	s.dead = true
	if s.cmd != nil && s.cmd.Process != nil {
		s.cmd.Process.Kill()
		s.cmd.Wait()
	}
}

func (s *Solver) readLineDeadline(d time.Duration) (string, error) {
	type r struct {
		s   string
		err error
	}
	ch := make(chan r, 1)
	go func() {
		for {
			l, err := s.out.ReadString('\n')
			if err != nil {
				ch <- r{l, err}
				return
			}
			if strings.TrimSpace(l) == "" {
				continue
			}
			ch <- r{l, nil}
			return
		}
	}()
	select {
	case x := <-ch:
		return x.s, x.err
	case <-time.After(d):
		return "", fmt.Errorf("solver deadline exceeded")
	}
}

// readSexp reads one balanced s-expression.
func (s *Solver) readSexp(d time.Duration) (string, error) {
	var sb strings.Builder
	depth := 0
	started := false
	deadline := time.Now().Add(d)
	for {
		l, err := s.readLineDeadline(time.Until(deadline))
		if err != nil {
			return sb.String(), err
		}
		sb.WriteString(l)
		inBar := false
		for _, c := range l {
			switch {
			case c == '|':
				inBar = !inBar
			case inBar:
			case c == '(':
				depth++
				started = true
			case c == ')':
				depth--
			}
		}
		if started && depth <= 0 {
			return sb.String(), nil
		}
	}
}

// parseModel parses "((|name| #x..) (|b| true) ...)".
func parseModel(txt string) map[string]uint64 {
	m := map[string]uint64{}
	i := 0
	n := len(txt)
	for i < n {
		// find "(|" or "(name "
		j := strings.Index(txt[i:], "(|")
		if j < 0 {
			break
		}
		i += j + 2
		k := strings.IndexByte(txt[i:], '|')
		if k < 0 {
			break
		}
		name := txt[i : i+k]
		i += k + 1
		// value up to matching ')'
		for i < n && (txt[i] == ' ' || txt[i] == '\n') {
			i++
		}
		e := i
		depth := 0
		for e < n {
			if txt[e] == '(' {
				depth++
			} else if txt[e] == ')' {
				if depth == 0 {
					break
				}
				depth--
			}
			e++
		}
		val := strings.TrimSpace(txt[i:e])
		i = e
		switch {
		case val == "true":
			m[name] = 1
		case val == "false":
			m[name] = 0
		case strings.HasPrefix(val, "#x"):
			v, _ := strconv.ParseUint(val[2:], 16, 64)
			m[name] = v
		case strings.HasPrefix(val, "#b"):
			v, _ := strconv.ParseUint(val[2:], 2, 64)
			m[name] = v
		case strings.HasPrefix(val, "(_ bv"):
			f := strings.Fields(val[5:])
			v, _ := strconv.ParseUint(f[0], 10, 64)
			m[name] = v
		}
	}
	return m
}

// Eval evaluates a term under a model (variables missing from the model are 0).
func (tb *TB) Eval(t *Term, model map[string]uint64, memo map[int]uint64) uint64 {
	if t.Op == OpConst {
		return t.K
	}
	if v, ok := memo[t.ID]; ok {
		return v
	}
	// iterative post-order to avoid deep recursion
	type fr struct {
		t *Term
		i int
	}
	stack := []fr{{t, 0}}
	get := func(x *Term) uint64 {
		if x.Op == OpConst {
			return x.K
		}
		return memo[x.ID]
	}
	for len(stack) > 0 {
		f := &stack[len(stack)-1]
		kids := [3]*Term{f.t.A, f.t.B, f.t.C}
		pushed := false
		for f.i < 3 {
			k := kids[f.i]
			f.i++
			if k != nil && k.Op != OpConst {
				if _, ok := memo[k.ID]; !ok {
					stack = append(stack, fr{k, 0})
					pushed = true
					break
				}
			}
		}
		if pushed {
			continue
		}
		n := f.t
		stack = stack[:len(stack)-1]
		var v uint64
		b2u := func(b bool) uint64 {
			if b {
				return 1
			}
			return 0
		}
		sval := func(x *Term) int64 {
			k := get(x)
			if x.W < 64 && k&(uint64(1)<<uint(x.W-1)) != 0 {
				return int64(k | ^mask(x.W))
			}
			return int64(k)
		}
		switch n.Op {
		case OpVar:
			v = model[n.Name]
		case OpNot:
			v = 1 - get(n.A)
		case OpAnd:
			v = get(n.A) & get(n.B)
		case OpOr:
			v = get(n.A) | get(n.B)
		case OpIte:
			if get(n.A) == 1 {
				v = get(n.B)
			} else {
				v = get(n.C)
			}
		case OpEq:
			v = b2u(get(n.A) == get(n.B))
		case OpULt:
			v = b2u(get(n.A) < get(n.B))
		case OpULe:
			v = b2u(get(n.A) <= get(n.B))
		case OpSLt:
			v = b2u(sval(n.A) < sval(n.B))
		case OpSLe:
			v = b2u(sval(n.A) <= sval(n.B))
		case OpExtract:
			hi, lo := int(n.K>>16), int(n.K&0xffff)
			v = (get(n.A) >> uint(lo)) & mask(hi-lo+1)
		case OpZExt:
			v = get(n.A)
		case OpSExt:
			v = uint64(sval(n.A)) & mask(n.W)
		case OpConcat:
			v = get(n.A)<<uint(n.B.W) | get(n.B)
		case OpBNot:
			v = ^get(n.A) & mask(n.W)
		case OpNeg:
			v = -get(n.A) & mask(n.W)
		default:
			a := &Term{Op: OpConst, W: n.A.W, K: get(n.A)}
			b := &Term{Op: OpConst, W: n.B.W, K: get(n.B)}
			r := tb.bin(n.Op, a, b)
			v = r.K
		}
		memo[n.ID] = v
	}
	return memo[t.ID]
}
