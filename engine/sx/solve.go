package sx

import (
	"fmt"
	"sort"
	"time"
)

// ObResult is the verdict on one obligation.
type ObResult struct {
	Ob      *Obligation
	Res     Result
	Assign  map[string]interface{} // concrete inputs (sat only)
	Millis  int64
	KnownID string // set when the counterexample is attributed to a listed known finding
	Err     string
	// Confirmed: the model was replayed natively and reproduced (sat results only)
	Confirmed bool
	Native    string
	Spurious  int // models that did not reproduce and were blocked before this verdict
}

// DischargeStats summarises solver work.
type DischargeStats struct {
	Queries   int
	Distinct  int
	SolverMs  int64
	Unknown   int
	CrossDiff int
	Solver    string
}

// inputVars lists the solver variables that make up the named inputs.
func (x *Exec) inputVars() []*Term {
	var vs []*Term
	seen := map[int]bool{}
	add := func(t *Term) {
		if t == nil {
			return
		}
		// strip zero-extension
		for t.Op == OpZExt {
			t = t.A
		}
		if t.Op == OpVar && !seen[t.ID] {
			seen[t.ID] = true
			vs = append(vs, t)
		}
	}
	for _, in := range x.Inputs {
		add(in.T)
		add(in.Len)
		for _, b := range in.B {
			add(b)
		}
	}
	return vs
}

// Assignment converts a model into named concrete inputs.
func (x *Exec) Assignment(model map[string]uint64) map[string]interface{} {
	memo := map[int]uint64{}
	out := map[string]interface{}{}
	for _, in := range x.Inputs {
		switch in.Kind {
		case "bool":
			out[in.Name] = x.tb.Eval(in.T, model, memo) == 1
		case "byte":
			out[in.Name] = int64(x.tb.Eval(in.T, model, memo))
		case "int":
			v := x.tb.Eval(in.T, model, memo)
			out[in.Name] = int64(v)
		case "string":
			n := int(x.tb.Eval(in.Len, model, memo))
			if n > len(in.B) {
				n = len(in.B)
			}
			bs := make([]int, n)
			for i := 0; i < n; i++ {
				bs[i] = int(x.tb.Eval(in.B[i], model, memo))
			}
			out[in.Name] = bs
		}
	}
	return out
}

// Discharge decides every obligation. knownListed is the set of known-finding ids that are listed
// with status "known" (their predicates are excluded from the violation query).
func (x *Exec) Discharge(solver string, timeout time.Duration, knownListed map[string]bool, progress func(string)) ([]ObResult, DischargeStats, error) {
	return x.discharge(solver, timeout, knownListed, progress, nil, 0)
}

// ConfirmFunc replays a model natively; it returns whether the real code reproduced it.
type ConfirmFunc func(ob *Obligation, assign map[string]interface{}) (bool, string)

// DischargeConfirm is Discharge with native confirmation of every model: a model that does not
// reproduce (an artefact of a nondeterministic stub) is blocked and the query repeated, at most
// `retries` times.
func (x *Exec) DischargeConfirm(solver string, timeout time.Duration, knownListed map[string]bool, confirm ConfirmFunc, retries int) ([]ObResult, DischargeStats, error) {
	return x.discharge(solver, timeout, knownListed, nil, confirm, retries)
}

func (x *Exec) discharge(solver string, timeout time.Duration, knownListed map[string]bool, progress func(string), confirm ConfirmFunc, retries int) ([]ObResult, DischargeStats, error) {
	st := DischargeStats{Solver: solver}
	sv, err := NewSolver(solver, x.tb)
	if err != nil {
		return nil, st, err
	}
	defer sv.Close()
	tb := x.tb
	// global assumptions once, at base level
	base := tb.True
	for _, a := range x.Assumptions {
		base = tb.And(base, a)
	}
	vars := x.inputVars()
	var results []ObResult
	check1 := func(cond *Term) (Result, map[string]uint64, int64, error) {
		t0 := time.Now()
		r, m, err := sv.Check(timeout, vars, base, cond)
		st.Queries++
		ms := time.Since(t0).Milliseconds()
		st.SolverMs += ms
		return r, m, ms, err
	}
	// checkC: check with native confirmation and blocking of non-reproducing models
	var curOb *Obligation
	var lastConfirmed bool
	var lastNative string
	var lastSpurious int
	check := func(cond *Term) (Result, map[string]uint64, int64, error) {
		lastConfirmed, lastNative, lastSpurious = false, "", 0
		var total int64
		for attempt := 0; ; attempt++ {
			r, m, ms, err := check1(cond)
			total += ms
			if r != Sat || confirm == nil {
				lastConfirmed = r == Sat && confirm == nil
				return r, m, total, err
			}
			ok, native := confirm(curOb, x.Assignment(m))
			lastNative = native
			if ok {
				lastConfirmed = true
				return r, m, total, err
			}
			// a model may be discarded as an artefact only where an artefact has a source: an
			// uninterpreted stub was applied or the clock is symbolic (natively neither can be
			// dictated). Otherwise - e.g. a schedule counterexample that failed to reproduce by
			// chance - non-reproduction is never evidence that the assertion holds
			if attempt >= retries || (!x.hasArtefactSource() && (curOb == nil || curOb.Kind != "cover")) {
				return r, m, total, err
			}
			lastSpurious++
			cond = tb.And(cond, tb.Not(x.modelCube(m)))
		}
	}
	// Obligations with the same (kind, label, position) — the same assertion reached on different
	// case-split paths — are decided together: the disjunction of their conditions must be unsat
	// (covers: must be sat).
	type group struct {
		ob    *Obligation
		viol  *Term            // OR_i cond_i ∧ ¬(listed known predicates_i)
		known map[string]*Term // id -> OR_i cond_i ∧ pred_i,id
		n     int
	}
	var order []string
	groups := map[string]*group{}
	for _, ob := range x.Obligations {
		key := ob.Kind + "|" + ob.Label + "|" + ob.Pos
		g := groups[key]
		if g == nil {
			g = &group{ob: &Obligation{Kind: ob.Kind, Label: ob.Label, Pos: ob.Pos}, viol: tb.False, known: map[string]*Term{}}
			groups[key] = g
			order = append(order, key)
		}
		g.n++
		excl := tb.False
		if ob.Kind != "cover" {
			for id, p := range ob.Known {
				if knownListed[id] {
					excl = tb.Or(excl, p)
					c := tb.And(ob.Cond, p)
					if old, ok := g.known[id]; ok {
						g.known[id] = tb.Or(old, c)
					} else {
						g.known[id] = c
					}
				}
			}
		}
		g.viol = tb.Or(g.viol, tb.And(ob.Cond, tb.Not(excl)))
	}
	for _, key := range order {
		g := groups[key]
		ob := g.ob
		ob.Cond = g.viol
		st.Distinct++
		res := ObResult{Ob: ob}
		curOb = ob
		r, m, ms, err := check(g.viol)
		if progress != nil {
			progress(fmt.Sprintf("%s %s %dms %s @ %s (%d paths)", ob.Kind, r, ms, ob.Label, ob.Pos, g.n))
		}
		res.Res, res.Millis = r, ms
		res.Confirmed, res.Native, res.Spurious = lastConfirmed, lastNative, lastSpurious
		if err != nil {
			res.Err = err.Error()
		}
		if r == Sat {
			res.Assign = x.Assignment(m)
		}
		if r == Unknown {
			st.Unknown++
		}
		results = append(results, res)
		if r != Unsat || ob.Kind == "cover" {
			continue
		}
		var ids []string
		for id := range g.known {
			ids = append(ids, id)
		}
		sort.Strings(ids)
		for _, id := range ids {
			r2, m2, ms2, _ := check(g.known[id])
			kr := ObResult{Ob: ob, Res: r2, Millis: ms2, KnownID: id, Confirmed: lastConfirmed, Native: lastNative, Spurious: lastSpurious}
			if r2 == Sat {
				kr.Assign = x.Assignment(m2)
			}
			if r2 == Unknown {
				st.Unknown++
			}
			results = append(results, kr)
		}
	}
	return results, st, nil
}

// feasible asks the (optional) feasibility solver whether g is satisfiable; unknown = keep.
func (x *Exec) feasible(g *Term) bool {
	if x.feas == nil {
		return true
	}
	base := x.tb.True
	for _, a := range x.Assumptions {
		base = x.tb.And(base, a)
	}
	r, _, _ := x.feas.Check(2*time.Second, nil, base, g)
	return r != Unsat
}

// EnableFeasibility starts a solver used to prune infeasible branches during execution.
func (x *Exec) EnableFeasibility(solver string) error {
	sv, err := NewSolver(solver, x.tb)
	if err != nil {
		return err
	}
	x.feas = sv
	x.cfg.CheckFeasib = true
	return nil
}

func (x *Exec) Close() {
	if x.enum != nil {
		x.enum.Close()
		x.enum = nil
	}
	if x.feas != nil {
		x.feas.Close()
	}
}

// modelCube is the conjunction "every named input has its model value".
func (x *Exec) modelCube(model map[string]uint64) *Term {
	tb := x.tb
	memo := map[int]uint64{}
	c := tb.True
	for _, in := range x.Inputs {
		switch in.Kind {
		case "string":
			n := tb.Eval(in.Len, model, memo)
			c = tb.And(c, tb.Eq(in.Len, tb.BV(64, n)))
			for i := 0; i < int(n) && i < len(in.B); i++ {
				c = tb.And(c, tb.Eq(in.B[i], tb.BV(8, tb.Eval(in.B[i], model, memo))))
			}
		default:
			v := tb.Eval(in.T, model, memo)
			if in.T.W == 0 {
				c = tb.And(c, tb.Eq(in.T, tb.Bool(v == 1)))
			} else {
				c = tb.And(c, tb.Eq(in.T, tb.BV(in.T.W, v)))
			}
		}
	}
	return c
}


// hasArtefactSource reports whether this run contains something the native replay cannot be made
// to follow: an uninterpreted function stub or symbolic clock readings.
func (x *Exec) hasArtefactSource() bool { return len(x.uf) > 0 || x.SymClock }
