package sx

import (
	"fmt"
	"go/types"
	"strconv"
	"strings"
)

// ---- string algorithms over StrVal ----

func (x *Exec) i64(v int) *Term { return x.tb.Int64(int64(v)) }

func (x *Exec) maxLen(s *StrVal) int {
	n := len(s.B)
	if s.Len.Hi < uint64(n) {
		n = int(s.Len.Hi)
	}
	return n
}

// strIndexByte: first index of byte c in s, or -1.
func (x *Exec) strIndexByte(s *StrVal, c *Term) *Term {
	tb := x.tb
	r := tb.Int64(-1)
	for i := x.maxLen(s) - 1; i >= 0; i-- {
		hit := tb.And(tb.ULt(x.i64(i), s.Len), tb.Eq(s.B[i], c))
		r = tb.Ite(hit, x.i64(i), r)
	}
	return r
}

func (x *Exec) strLastIndexByte(s *StrVal, c *Term) *Term {
	tb := x.tb
	r := tb.Int64(-1)
	for i := 0; i < x.maxLen(s); i++ {
		hit := tb.And(tb.ULt(x.i64(i), s.Len), tb.Eq(s.B[i], c))
		r = tb.Ite(hit, x.i64(i), r)
	}
	return r
}

// matchAt: sub occurs in s at concrete offset i.
func (x *Exec) matchAt(s, sub *StrVal, i int) *Term {
	tb := x.tb
	end := tb.Add(x.i64(i), sub.Len)
	r := tb.ULe(end, s.Len)
	for j := 0; j < x.maxLen(sub); j++ {
		if r.IsFalse() {
			return r
		}
		var sb *Term
		if i+j < len(s.B) {
			sb = s.B[i+j]
		} else {
			sb = tb.BV(8, 0)
		}
		e := tb.Eq(sb, sub.B[j])
		if sub.Len.IsConst() {
			r = tb.And(r, e)
		} else {
			r = tb.And(r, tb.Implies(tb.ULt(x.i64(j), sub.Len), e))
		}
	}
	return r
}

func (x *Exec) strIndex(s, sub *StrVal) *Term {
	tb := x.tb
	r := tb.Int64(-1)
	for i := x.maxLen(s); i >= 0; i-- {
		r = tb.Ite(x.matchAt(s, sub, i), x.i64(i), r)
	}
	return r
}

func (x *Exec) strLastIndex(s, sub *StrVal) *Term {
	tb := x.tb
	r := tb.Int64(-1)
	for i := 0; i <= x.maxLen(s); i++ {
		r = tb.Ite(x.matchAt(s, sub, i), x.i64(i), r)
	}
	return r
}

func (x *Exec) strHasPrefix(s, p *StrVal) *Term { return x.matchAt(s, p, 0) }

func (x *Exec) strHasSuffix(s, p *StrVal) *Term {
	tb := x.tb
	ok := tb.ULe(p.Len, s.Len)
	if ok.IsFalse() {
		return ok
	}
	lo := tb.Ite(ok, tb.Sub(s.Len, p.Len), tb.Int64(0))
	tail := x.strSlice(s, lo, s.Len)
	return tb.And(ok, x.strEq(tail, p))
}

func (x *Exec) strMapBytes(s *StrVal, f func(b *Term) *Term) *StrVal {
	out := &StrVal{B: make([]*Term, len(s.B)), Len: s.Len, Opaque: s.Opaque}
	for i, b := range s.B {
		out.B[i] = f(b)
	}
	return out
}

func (x *Exec) anyNonASCII(s *StrVal) *Term {
	tb := x.tb
	r := tb.False
	for i := 0; i < x.maxLen(s); i++ {
		r = tb.Or(r, tb.And(tb.ULt(x.i64(i), s.Len), tb.Not(tb.ULt(s.B[i], tb.BV(8, 128)))))
	}
	return r
}

func (x *Exec) strToLower(s *StrVal) *StrVal {
	tb := x.tb
	out := x.strMapBytes(s, func(b *Term) *Term {
		up := tb.And(tb.ULe(tb.BV(8, 'A'), b), tb.ULe(b, tb.BV(8, 'Z')))
		return tb.Ite(up, tb.Add(b, tb.BV(8, 32)), b)
	})
	na := x.anyNonASCII(s)
	if !na.IsFalse() {
		out.Opaque = tb.Or(orFalse(tb, s.Opaque), na)
	}
	return out
}

func (x *Exec) strToUpper(s *StrVal) *StrVal {
	tb := x.tb
	out := x.strMapBytes(s, func(b *Term) *Term {
		lo := tb.And(tb.ULe(tb.BV(8, 'a'), b), tb.ULe(b, tb.BV(8, 'z')))
		return tb.Ite(lo, tb.Sub(b, tb.BV(8, 32)), b)
	})
	na := x.anyNonASCII(s)
	if !na.IsFalse() {
		out.Opaque = tb.Or(orFalse(tb, s.Opaque), na)
	}
	return out
}

// inSet: byte b is one of the bytes of the concrete cutset.
func (x *Exec) inSet(b *Term, set string) *Term {
	tb := x.tb
	r := tb.False
	for i := 0; i < len(set); i++ {
		r = tb.Or(r, tb.Eq(b, tb.BV(8, uint64(set[i]))))
	}
	return r
}

// strTrim with a concrete ASCII cutset; left/right select the sides.
func (x *Exec) strTrim(s *StrVal, set string, left, right bool) *StrVal {
	tb := x.tb
	n := x.maxLen(s)
	lo := tb.Int64(0)
	if left {
		// lo = number of leading bytes in set
		lo = s.Len // all bytes in set
		for i := n - 1; i >= 0; i-- {
			stop := tb.And(tb.ULt(x.i64(i), s.Len), tb.Not(x.inSet(s.B[i], set)))
			lo = tb.Ite(stop, x.i64(i), lo)
		}
	}
	hi := s.Len
	if right {
		// hi = 1 + last index (>= lo) not in set, or lo
		hi = lo
		for i := 0; i < n; i++ {
			keep := tb.AndN(tb.ULt(x.i64(i), s.Len), tb.Not(x.inSet(s.B[i], set)))
			hi = tb.Ite(keep, x.i64(i+1), hi)
		}
		// if everything was trimmed from the left, hi < lo cannot happen: keep implies i >= lo
	}
	return x.strSlice(s, lo, hi)
}

// strSplitN implements strings.SplitN(s, sep, n) for n > 0 or n < 0 with a non-empty separator;
// maxParts bounds the number of parts for n < 0.
func (x *Exec) strSplitN(st *State, s, sep *StrVal, n int, et types.Type) Value {
	tb := x.tb
	maxParts := n
	if n < 0 {
		maxParts = x.maxLen(s) + 1
	}
	parts := make([]Value, 0, maxParts)
	rest := s
	alive := tb.True // still splitting
	count := tb.Int64(0)
	for k := 0; k < maxParts; k++ {
		if alive.IsFalse() {
			break
		}
		last := k == maxParts-1 && n > 0
		var part *StrVal
		if last {
			part = rest
			parts = append(parts, part)
			count = tb.Ite(alive, x.i64(k+1), count)
			alive = tb.False
			break
		}
		idx := x.strIndex(rest, sep)
		found := tb.Not(tb.Eq(idx, tb.Int64(-1)))
		cut := tb.Ite(found, idx, rest.Len)
		part = x.strSlice(rest, tb.Int64(0), cut)
		parts = append(parts, part)
		count = tb.Ite(alive, x.i64(k+1), count)
		nlo := tb.Ite(found, tb.Add(idx, sep.Len), rest.Len)
		rest = x.strSlice(rest, nlo, rest.Len)
		alive = tb.And(alive, found)
	}
	if !alive.IsFalse() {
		x.oblige(st, "unwind", "strings.Split produced more parts than the bound", tb.And(st.G, alive))
	}
	arr := &ArrayVal{E: parts}
	id := x.newObj(arr, st)
	return &SliceVal{Ptr: x.ptrTo(id, 0), Len: count, Cap: x.i64(len(parts))}
}

// ---- decimal rendering / parsing ----

// itoa renders a signed 64-bit term as decimal. Exact for concrete values; for symbolic values the
// range must be small (|v| < 10^6), else the engine fails (stated bound).
func (x *Exec) itoa(v *Term, signed bool) *StrVal {
	tb := x.tb
	if v.IsConst() {
		if signed {
			return x.str(fmt.Sprintf("%d", v.SVal()))
		}
		return x.str(fmt.Sprintf("%d", v.K))
	}
	// small ranges: a table (no division reaches the solver)
	if (!signed || signedSafe(v)) && v.Hi-v.Lo <= 300 {
		var r Value
		for k := v.Hi; ; k-- {
			sv := x.str(fmt.Sprintf("%d", k))
			if r == nil {
				r = sv
			} else {
				r = x.ite(tb.Eq(v, tb.BV(v.W, k)), sv, r)
			}
			if k == v.Lo {
				break
			}
		}
		return r.(*StrVal)
	}
	v64 := v
	if v.W < 64 {
		if signed {
			v64 = tb.SExt(v, 64)
		} else {
			v64 = tb.ZExt(v, 64)
		}
	}
	neg := tb.False
	mag := v64
	if signed && !signedSafe(v64) {
		neg = tb.SLt(v64, tb.Int64(0))
		mag = tb.Ite(neg, tb.Neg(v64), v64)
	}
	// number of digits needed from the range
	maxDigits := 20
	if mag.Hi < 1<<62 {
		maxDigits = len(fmt.Sprintf("%d", mag.Hi))
	}
	if signed && !signedSafe(v64) {
		maxDigits = 19
	}
	// digits via repeated division by 10 (fine for small ranges; large ranges are costly for solvers)
	digits := make([]*Term, maxDigits) // least significant first
	q := mag
	ten := tb.Int64(10)
	for i := 0; i < maxDigits; i++ {
		digits[i] = tb.Add(tb.Extract(tb.URem(q, ten), 7, 0), tb.BV(8, '0'))
		q = tb.UDiv(q, ten)
	}
	// ndig = number of significant digits (at least 1)
	ndig := tb.Int64(1)
	p := uint64(10)
	for i := 1; i < maxDigits; i++ {
		ndig = tb.Ite(tb.ULe(tb.BV(64, p), mag), x.i64(i+1), ndig)
		if p > (1<<63)/5 {
			break
		}
		p *= 10
	}
	// body[j] = digits[ndig-1-j]
	body := &StrVal{B: make([]*Term, maxDigits), Len: ndig}
	for j := 0; j < maxDigits; j++ {
		var r *Term = tb.BV(8, '0')
		for nd := maxDigits; nd >= 1; nd-- {
			k := nd - 1 - j
			if k < 0 {
				continue
			}
			r = tb.Ite(tb.Eq(ndig, x.i64(nd)), digits[k], r)
		}
		body.B[j] = r
	}
	if neg.IsFalse() {
		return body
	}
	withSign := x.strConcat(x.str("-"), body)
	return x.ite(neg, withSign, body).(*StrVal)
}

// parseDecimal parses s as a signed decimal integer of at most maxDigits digits (optionally with a
// sign). Returns (value, ok). Inputs with more digits are reported not-ok with an escape obligation.
func (x *Exec) parseDecimal(st *State, s *StrVal, bitSize int, unsigned bool) (*Term, *Term) {
	tb := x.tb
	n := x.maxLen(s)
	if n > 18 {
		n = 18
		x.oblige(st, "escape", "strconv parse of a string longer than 18 bytes", tb.And(st.G, tb.ULt(x.i64(18), s.Len)))
	}
	ok := tb.Not(tb.Eq(s.Len, tb.Int64(0)))
	var neg, hasSign *Term = tb.False, tb.False
	if n > 0 && !unsigned {
		neg = tb.And(ok, tb.Eq(s.B[0], tb.BV(8, '-')))
		plus := tb.And(ok, tb.Eq(s.B[0], tb.BV(8, '+')))
		hasSign = tb.Or(neg, plus)
	}
	// a lone sign is invalid
	ok = tb.And(ok, tb.Not(tb.And(hasSign, tb.Eq(s.Len, tb.Int64(1)))))
	val := tb.Int64(0)
	for i := 0; i < n; i++ {
		in := tb.ULt(x.i64(i), s.Len)
		b := s.B[i]
		isDigit := tb.And(tb.ULe(tb.BV(8, '0'), b), tb.ULe(b, tb.BV(8, '9')))
		// underscores are only legal with base 0; base 10 callers: invalid
		isSignPos := tb.Bool(false)
		if i == 0 {
			isSignPos = hasSign
		}
		ok = tb.And(ok, tb.Implies(in, tb.Or(isDigit, isSignPos)))
		d := tb.ZExt(tb.Sub(b, tb.BV(8, '0')), 64)
		nv := tb.Add(tb.Mul(val, tb.Int64(10)), d)
		val = tb.Ite(tb.And(in, tb.Not(isSignPos)), nv, val)
	}
	val = tb.Ite(neg, tb.Neg(val), val)
	// range check for bitSize
	if bitSize > 0 && bitSize < 64 {
		if unsigned {
			ok = tb.And(ok, tb.ULt(val, tb.BV(64, uint64(1)<<uint(bitSize))))
		} else {
			lim := int64(1) << uint(bitSize-1)
			ok = tb.AndN(ok, tb.SLt(val, tb.Int64(lim)), tb.SLe(tb.Int64(-lim), val))
		}
	}
	return val, ok
}

// ---- fmt ----

// sprintf formats with the verbs inbucket uses. Unknown argument kinds render as an opaque short
// string (over-approximation used only where the text is not inspected).
func (x *Exec) sprintf(st *State, format string, args []Value) *StrVal {
	out := x.str("")
	ai := 0
	i := 0
	lit := func(s string) {
		if s != "" {
			out = x.strConcat(out, x.str(s))
		}
	}
	for i < len(format) {
		j := strings.IndexByte(format[i:], '%')
		if j < 0 {
			lit(format[i:])
			break
		}
		lit(format[i : i+j])
		i += j + 1
		if i >= len(format) {
			break
		}
		// flags / width
		k := i
		for k < len(format) && strings.IndexByte("0123456789+-# .", format[k]) >= 0 {
			k++
		}
		if k >= len(format) {
			break
		}
		spec := format[i:k]
		verb := format[k]
		i = k + 1
		if verb == '%' {
			lit("%")
			continue
		}
		if ai >= len(args) {
			lit("%!" + string(verb) + "(MISSING)")
			continue
		}
		a := args[ai]
		ai++
		out = x.strConcat(out, x.fmtArg(st, a, verb, spec))
	}
	return out
}

func (x *Exec) unwrapIface(a Value) Value {
	if iv, ok := a.(*IfaceVal); ok {
		var r Value
		for _, al := range iv.Alts {
			if al.G.IsFalse() {
				continue
			}
			if al.T == nil {
				return nil
			}
			v := al.V
			// signedness tag for integers
			if t, ok := v.(*Term); ok && t.W > 0 {
				v = &fmtInt{T: t, Unsigned: isUnsigned(al.T)}
			}
			if r != nil {
				return &OpaqueVal{Kind: "fmt-multi"}
			}
			r = v
		}
		return r
	}
	return a
}

type fmtInt struct {
	T        *Term
	Unsigned bool
}

func (x *Exec) opaqueText(st *State, what string) *StrVal {
	// an unconstrained short string
	n := 6
	name := x.freshName("fmt")
	s := &StrVal{B: make([]*Term, n)}
	for i := range s.B {
		s.B[i] = x.tb.Var(fmt.Sprintf("%s#%d", name, i), 8)
	}
	l := x.tb.Var(name+"#len", 8)
	x.Assumptions = append(x.Assumptions, x.tb.ULe(l, x.tb.BV(8, uint64(n))))
	x.tb.VarRange(name+"#len", 8, 0, uint64(n))
	s.Len = x.tb.ZExt(l, 64)
	x.StubsHit["opaque-text:"+what]++
	return s
}

func (x *Exec) fmtArg(st *State, a Value, verb byte, spec string) *StrVal {
	tb := x.tb
	v := x.unwrapIface(a)
	switch c := v.(type) {
	case nil:
		return x.str("<nil>")
	case *StrVal:
		if verb == 'q' {
			// quoting is exact only for printable ASCII without quotes/backslashes; treated as opaque text
			return x.strConcat(x.strConcat(x.str("\""), c), x.str("\""))
		}
		return c
	case *fmtInt:
		if verb == 'q' || verb == 'c' {
			return x.opaqueText(st, "rune")
		}
		body := x.itoa(c.T, !c.Unsigned)
		// zero padding %03d / %04d
		if len(spec) >= 2 && spec[0] == '0' {
			w := int(spec[1] - '0')
			for k := 1; k < w; k++ {
				// pad while len < w
				body = x.ite(tb.ULt(body.Len, x.i64(w)), x.strConcat(x.str("0"), body), body).(*StrVal)
			}
		}
		return body
	case *Term:
		if c.W == 0 {
			return x.ite(c, x.str("true"), x.str("false")).(*StrVal)
		}
		return x.itoa(c, true)
	case *PtrVal:
		// error values (*errorString) print their text
		if s := x.errorText(st, c); s != nil {
			return s
		}
	}
	return x.opaqueText(st, fmt.Sprintf("%T", v))
}

// errorText returns the message of a *errors.errorString-like object if p points to one.
func (x *Exec) errorText(st *State, p *PtrVal) *StrVal {
	if len(p.Alts) != 1 || p.Alts[0].Obj == 0 {
		return nil
	}
	o := getPath(st.Heap[p.Alts[0].Obj], p.Alts[0].Path)
	if sv, ok := o.(*StructVal); ok && len(sv.F) >= 1 {
		if s, ok := sv.F[0].(*StrVal); ok {
			return s
		}
	}
	return nil
}

// newError allocates an error value carrying msg.
func (x *Exec) newError(st *State, msg *StrVal) Value {
	eo := x.newObj(&StructVal{F: []Value{msg}}, st)
	return &IfaceVal{Alts: []IfaceAlt{{G: x.tb.True, T: errStringPtrType(x), V: x.ptrTo(eo)}}}
}

func (x *Exec) variadicArgs(st *State, v Value) []Value {
	sl := v.(*SliceVal)
	if !sl.Len.IsConst() {
		x.fail("variadic argument list of symbolic length")
	}
	if sl.Len.K == 0 {
		return nil
	}
	el, _ := x.sliceElems(st, sl)
	return el
}

func (x *Exec) formatString(v Value) string {
	s, ok := x.concreteStr(v.(*StrVal))
	if !ok {
		x.fail("non-constant format string")
	}
	return s
}

func init() {
	RegisterIntrinsic("strings.ToLower", func(x *Exec, s *State, c *CallCtx) Value { return x.strToLower(c.Args[0].(*StrVal)) })
	RegisterIntrinsic("strings.ToUpper", func(x *Exec, s *State, c *CallCtx) Value { return x.strToUpper(c.Args[0].(*StrVal)) })
	RegisterIntrinsic("strings.IndexByte", func(x *Exec, s *State, c *CallCtx) Value {
		return x.strIndexByte(c.Args[0].(*StrVal), c.Args[1].(*Term))
	})
	RegisterIntrinsic("strings.LastIndexByte", func(x *Exec, s *State, c *CallCtx) Value {
		return x.strLastIndexByte(c.Args[0].(*StrVal), c.Args[1].(*Term))
	})
	RegisterIntrinsic("strings.IndexRune", func(x *Exec, s *State, c *CallCtx) Value {
		r := c.Args[1].(*Term)
		x.oblige(s, "escape", "strings.IndexRune with a non-ASCII rune", x.tb.And(s.G, x.tb.Not(x.tb.ULt(r, x.tb.BV(32, 128)))))
		return x.strIndexByte(c.Args[0].(*StrVal), x.tb.Extract(r, 7, 0))
	})
	RegisterIntrinsic("strings.Index", func(x *Exec, s *State, c *CallCtx) Value {
		return x.strIndex(c.Args[0].(*StrVal), c.Args[1].(*StrVal))
	})
	RegisterIntrinsic("strings.LastIndex", func(x *Exec, s *State, c *CallCtx) Value {
		return x.strLastIndex(c.Args[0].(*StrVal), c.Args[1].(*StrVal))
	})
	RegisterIntrinsic("strings.Contains", func(x *Exec, s *State, c *CallCtx) Value {
		return x.tb.Not(x.tb.Eq(x.strIndex(c.Args[0].(*StrVal), c.Args[1].(*StrVal)), x.tb.Int64(-1)))
	})
	RegisterIntrinsic("strings.HasPrefix", func(x *Exec, s *State, c *CallCtx) Value {
		return x.strHasPrefix(c.Args[0].(*StrVal), c.Args[1].(*StrVal))
	})
	RegisterIntrinsic("strings.HasSuffix", func(x *Exec, s *State, c *CallCtx) Value {
		return x.strHasSuffix(c.Args[0].(*StrVal), c.Args[1].(*StrVal))
	})
	trim := func(left, right bool) Intrinsic {
		return func(x *Exec, s *State, c *CallCtx) Value {
			set, ok := x.concreteStr(c.Args[1].(*StrVal))
			if !ok {
				x.fail("strings.Trim with a symbolic cutset")
			}
			return x.strTrim(c.Args[0].(*StrVal), set, left, right)
		}
	}
	RegisterIntrinsic("strings.Trim", trim(true, true))
	RegisterIntrinsic("strings.TrimLeft", trim(true, false))
	RegisterIntrinsic("strings.TrimRight", trim(false, true))
	RegisterIntrinsic("strings.TrimSpace", func(x *Exec, s *State, c *CallCtx) Value {
		x.oblige(s, "escape", "strings.TrimSpace on non-ASCII input", x.tb.And(s.G, x.anyNonASCII(c.Args[0].(*StrVal))))
		return x.strTrim(c.Args[0].(*StrVal), " \t\n\v\f\r", true, true)
	})
	RegisterIntrinsic("strings.TrimPrefix", func(x *Exec, s *State, c *CallCtx) Value {
		a, p := c.Args[0].(*StrVal), c.Args[1].(*StrVal)
		has := x.strHasPrefix(a, p)
		lo := x.tb.Ite(has, p.Len, x.tb.Int64(0))
		return x.strSlice(a, lo, a.Len)
	})
	RegisterIntrinsic("strings.TrimSuffix", func(x *Exec, s *State, c *CallCtx) Value {
		a, p := c.Args[0].(*StrVal), c.Args[1].(*StrVal)
		has := x.strHasSuffix(a, p)
		hi := x.tb.Ite(has, x.tb.Sub(a.Len, p.Len), a.Len)
		return x.strSlice(a, x.tb.Int64(0), hi)
	})
	RegisterIntrinsic("strings.SplitN", func(x *Exec, s *State, c *CallCtx) Value {
		n := c.Args[2].(*Term)
		if !n.IsConst() {
			x.fail("strings.SplitN with symbolic n")
		}
		return x.strSplitN(s, c.Args[0].(*StrVal), c.Args[1].(*StrVal), int(n.SVal()), nil)
	})
	RegisterIntrinsic("strings.Split", func(x *Exec, s *State, c *CallCtx) Value {
		return x.strSplitN(s, c.Args[0].(*StrVal), c.Args[1].(*StrVal), -1, nil)
	})
	RegisterIntrinsic("strings.Join", func(x *Exec, s *State, c *CallCtx) Value {
		sl := c.Args[0].(*SliceVal)
		sep := c.Args[1].(*StrVal)
		if sl.Len.IsConst() && sl.Len.K == 0 {
			return x.str("")
		}
		el, _ := x.sliceElems(s, sl)
		out := x.str("")
		for i, e := range el {
			in := x.tb.ULt(x.i64(i), sl.Len)
			piece := e.(*StrVal)
			if i > 0 {
				piece = x.strConcat(sep, piece)
			}
			out = x.ite(in, x.strConcat(out, piece), out).(*StrVal)
		}
		return out
	})
	RegisterIntrinsic("strings.ReplaceAll", func(x *Exec, s *State, c *CallCtx) Value {
		a := c.Args[0].(*StrVal)
		old, ok1 := x.concreteStr(c.Args[1].(*StrVal))
		nw, ok2 := x.concreteStr(c.Args[2].(*StrVal))
		if !ok1 || !ok2 || len(old) != 1 {
			x.fail("strings.ReplaceAll: only single-byte concrete patterns are supported")
		}
		return x.replaceByte(a, old[0], nw)
	})
	RegisterIntrinsic("strings.EqualFold", func(x *Exec, s *State, c *CallCtx) Value {
		a, b := c.Args[0].(*StrVal), c.Args[1].(*StrVal)
		x.oblige(s, "escape", "strings.EqualFold on non-ASCII input", x.tb.And(s.G, x.tb.Or(x.anyNonASCII(a), x.anyNonASCII(b))))
		return x.strEq(x.strToLower(a), x.strToLower(b))
	})
	RegisterIntrinsic("strconv.Itoa", func(x *Exec, s *State, c *CallCtx) Value { return x.itoa(c.Args[0].(*Term), true) })
	RegisterIntrinsic("strconv.Atoi", func(x *Exec, s *State, c *CallCtx) Value {
		v, ok := x.parseDecimal(s, c.Args[0].(*StrVal), 64, false)
		errV := x.ite(ok, x.zero(errorType), x.newError(s, x.str("strconv.Atoi: parsing error")))
		return &TupleVal{E: []Value{x.tb.Ite(ok, v, x.tb.Int64(0)), errV}}
	})
	RegisterIntrinsic("strconv.ParseInt", func(x *Exec, s *State, c *CallCtx) Value {
		base, bits := c.Args[1].(*Term), c.Args[2].(*Term)
		if cs, ok := x.concreteStr(c.Args[0].(*StrVal)); ok && base.IsConst() && bits.IsConst() {
			return x.parseIntConcrete(s, cs, int(base.K), int(bits.K))
		}
		if !base.IsConst() || base.K != 10 || !bits.IsConst() {
			x.fail("strconv.ParseInt: only base 10 with a constant bit size is supported")
		}
		bs := int(bits.K)
		if bs == 0 {
			bs = 64
		}
		v, ok := x.parseDecimal(s, c.Args[0].(*StrVal), bs, false)
		errV := x.ite(ok, x.zero(errorType), x.newError(s, x.str("strconv.ParseInt: parsing error")))
		return &TupleVal{E: []Value{x.tb.Ite(ok, v, x.tb.Int64(0)), errV}}
	})
	RegisterIntrinsic("strconv.ParseUint", func(x *Exec, s *State, c *CallCtx) Value {
		base, bits := c.Args[1].(*Term), c.Args[2].(*Term)
		if cs, ok := x.concreteStr(c.Args[0].(*StrVal)); ok && base.IsConst() && bits.IsConst() {
			v, err := strconv.ParseUint(cs, int(base.K), int(bits.K))
			if err != nil {
				// like the real function: the maximum value on a range error, 0 on a syntax error
				return &TupleVal{E: []Value{x.tb.BV(64, v), x.newError(s, x.str("strconv.ParseUint: parsing error"))}}
			}
			return &TupleVal{E: []Value{x.tb.BV(64, v), x.zero(errorType)}}
		}
		if !base.IsConst() || base.K != 10 || !bits.IsConst() {
			x.fail("strconv.ParseUint: only base 10 with a constant bit size is supported")
		}
		bs := int(bits.K)
		if bs == 0 {
			bs = 64
		}
		v, ok := x.parseDecimal(s, c.Args[0].(*StrVal), bs, true)
		errV := x.ite(ok, x.zero(errorType), x.newError(s, x.str("strconv.ParseUint: parsing error")))
		return &TupleVal{E: []Value{x.tb.Ite(ok, v, x.tb.Int64(0)), errV}}
	})
	RegisterIntrinsic("fmt.Sprintf", func(x *Exec, s *State, c *CallCtx) Value {
		if fs := c.Args[0].(*StrVal); !fs.LenOnly {
			if _, concrete := x.concreteStr(fs); !concrete {
				// a symbolic format string without arguments (data used as a format by mistake):
				// text without '%' comes out unchanged; with a '%' the output is something else
				// ("%!x(MISSING)", "%%" -> "%"), modelled as a string different from every other
				args := x.variadicArgs(s, c.Args[1])
				if len(args) == 0 {
					has := x.tb.False
					for i := 0; i < x.maxLen(fs); i++ {
						has = x.tb.Or(has, x.tb.And(x.tb.ULt(x.i64(i), fs.Len), x.tb.Eq(fs.B[i], x.tb.BV(8, '%'))))
					}
					op := has
					if fs.Opaque != nil {
						op = x.tb.Or(op, fs.Opaque)
					}
					return &StrVal{B: fs.B, Len: fs.Len, Opaque: op}
				}
			}
		}
		return x.sprintf(s, x.formatString(c.Args[0]), x.variadicArgs(s, c.Args[1]))
	})
	RegisterIntrinsic("fmt.Errorf", func(x *Exec, s *State, c *CallCtx) Value {
		// the text of errors is not inspected by the harnesses: keep the (unformatted) format as message
		return x.newError(s, c.Args[0].(*StrVal))
	})
	RegisterIntrinsic("fmt.Sprint", func(x *Exec, s *State, c *CallCtx) Value {
		out := x.str("")
		for _, a := range x.variadicArgs(s, c.Args[0]) {
			out = x.strConcat(out, x.fmtArg(s, a, 'v', ""))
		}
		return out
	})
	RegisterIntrinsic("fmt.Printf", func(x *Exec, s *State, c *CallCtx) Value {
		return &TupleVal{E: []Value{x.tb.Int64(0), x.zero(errorType)}}
	})
	RegisterIntrinsic("fmt.Println", func(x *Exec, s *State, c *CallCtx) Value {
		return &TupleVal{E: []Value{x.tb.Int64(0), x.zero(errorType)}}
	})
	RegisterIntrinsic("html.EscapeString", func(x *Exec, s *State, c *CallCtx) Value {
		return x.htmlEscape(c.Args[0].(*StrVal))
	})
}

// replaceByte replaces every occurrence of byte old by the concrete string nw.
func (x *Exec) replaceByte(a *StrVal, old byte, nw string) *StrVal {
	tb := x.tb
	out := x.str("")
	for i := 0; i < x.maxLen(a); i++ {
		in := tb.ULt(x.i64(i), a.Len)
		isOld := tb.Eq(a.B[i], tb.BV(8, uint64(old)))
		one := &StrVal{B: []*Term{a.B[i]}, Len: tb.Int64(1)}
		piece := x.ite(isOld, x.str(nw), one).(*StrVal)
		out = x.ite(in, x.strConcat(out, piece), out).(*StrVal)
	}
	return out
}

func (x *Exec) htmlEscape(a *StrVal) *StrVal {
	tb := x.tb
	out := x.str("")
	rep := map[byte]string{'&': "&amp;", '\'': "&#39;", '<': "&lt;", '>': "&gt;", '"': "&#34;"}
	for i := 0; i < x.maxLen(a); i++ {
		in := tb.ULt(x.i64(i), a.Len)
		var piece Value = &StrVal{B: []*Term{a.B[i]}, Len: tb.Int64(1)}
		for _, ch := range []byte{'&', '\'', '<', '>', '"'} {
			piece = x.ite(tb.Eq(a.B[i], tb.BV(8, uint64(ch))), x.str(rep[ch]), piece)
		}
		out = x.ite(in, x.strConcat(out, piece.(*StrVal)), out).(*StrVal)
	}
	return out
}

func init() {
	idxByteStr := func(x *Exec, s *State, c *CallCtx) Value {
		return x.strIndexByte(c.Args[0].(*StrVal), c.Args[1].(*Term))
	}
	RegisterIntrinsic("internal/bytealg.IndexByteString", idxByteStr)
	RegisterIntrinsic("internal/stringslite.IndexByte", idxByteStr)
	RegisterIntrinsic("internal/bytealg.IndexByte", func(x *Exec, s *State, c *CallCtx) Value {
		return x.strIndexByte(x.bytesToStr(s, c.Args[0]), c.Args[1].(*Term))
	})
	RegisterIntrinsic("bytes.IndexByte", func(x *Exec, s *State, c *CallCtx) Value {
		return x.strIndexByte(x.bytesToStr(s, c.Args[0]), c.Args[1].(*Term))
	})
	idxStr := func(x *Exec, s *State, c *CallCtx) Value {
		return x.strIndex(c.Args[0].(*StrVal), c.Args[1].(*StrVal))
	}
	RegisterIntrinsic("internal/bytealg.IndexString", idxStr)
	RegisterIntrinsic("internal/stringslite.Index", idxStr)
	RegisterIntrinsic("internal/bytealg.CountString", func(x *Exec, s *State, c *CallCtx) Value {
		sv := c.Args[0].(*StrVal)
		ch := c.Args[1].(*Term)
		r := x.tb.Int64(0)
		for i := 0; i < x.maxLen(sv); i++ {
			hit := x.tb.And(x.tb.ULt(x.i64(i), sv.Len), x.tb.Eq(sv.B[i], ch))
			r = x.tb.Add(r, x.tb.Ite(hit, x.tb.Int64(1), x.tb.Int64(0)))
		}
		return r
	})
	RegisterIntrinsic("internal/bytealg.Equal", func(x *Exec, s *State, c *CallCtx) Value {
		return x.strEq(x.bytesToStr(s, c.Args[0]), x.bytesToStr(s, c.Args[1]))
	})
	RegisterIntrinsic("bytes.Equal", func(x *Exec, s *State, c *CallCtx) Value {
		return x.strEq(x.bytesToStr(s, c.Args[0]), x.bytesToStr(s, c.Args[1]))
	})
	hasPfx := func(x *Exec, s *State, c *CallCtx) Value {
		return x.strHasPrefix(c.Args[0].(*StrVal), c.Args[1].(*StrVal))
	}
	RegisterIntrinsic("internal/stringslite.HasPrefix", hasPfx)
	RegisterIntrinsic("internal/stringslite.HasSuffix", func(x *Exec, s *State, c *CallCtx) Value {
		return x.strHasSuffix(c.Args[0].(*StrVal), c.Args[1].(*StrVal))
	})
	RegisterIntrinsic("strings.Count", func(x *Exec, s *State, c *CallCtx) Value {
		sub, ok := x.concreteStr(c.Args[1].(*StrVal))
		if !ok || len(sub) != 1 {
			x.fail("strings.Count: only single-byte concrete substrings are supported")
		}
		sv := c.Args[0].(*StrVal)
		r := x.tb.Int64(0)
		for i := 0; i < x.maxLen(sv); i++ {
			hit := x.tb.And(x.tb.ULt(x.i64(i), sv.Len), x.tb.Eq(sv.B[i], x.tb.BV(8, uint64(sub[0]))))
			r = x.tb.Add(r, x.tb.Ite(hit, x.tb.Int64(1), x.tb.Int64(0)))
		}
		return r
	})
	RegisterIntrinsic("strings.LastIndexByte", func(x *Exec, s *State, c *CallCtx) Value {
		return x.strLastIndexByte(c.Args[0].(*StrVal), c.Args[1].(*Term))
	})
}
