package sx

import (
	"fmt"
	"go/constant"
	"go/token"
	"go/types"
	"os"
	"strings"

	"golang.org/x/tools/go/ssa"
)

// runState advances the current thread of s until it has to be re-queued (join points, returns,
// forks) or ends.
func (x *Exec) runState(s *State) {
	for {
		if s.dead || s.G.IsFalse() {
			return
		}
		t := s.thread()
		if len(t.Frames) == 0 {
			x.threadEnded(s)
			return
		}
		f := t.Frames[len(t.Frames)-1]
		if t.Panicking != nil && f.Unwinding {
			if !x.unwindStep(s) {
				return
			}
			continue
		}
		blk := f.Info.Fn.Blocks[f.Block]
		if f.PC >= len(blk.Instrs) {
			x.fail("fell off block %d of %s", f.Block, f.Info.Fn)
		}
		ins := blk.Instrs[f.PC]
		x.NInstr++
		x.curSite = x.siteOf(ins)
		x.allocSeq = 0
		if x.cfg.Trace || (traceFn != "" && strings.Contains(f.Info.Fn.Name(), traceFn)) {
			fmt.Printf("  [%s b%d:%d] tags=%v %s\n", f.Info.Fn.Name(), f.Block, f.PC, s.Tags, ins)
		}
		before := x.tb.NTerms
		cont := x.step(s, f, ins)
		if profTerms {
			if d := x.tb.NTerms - before; d > 0 {
				x.TermProf[f.Info.Fn.String()+" :: "+fmt.Sprintf("%T", ins)] += d
			}
		}
		if !cont {
			return
		}
	}
}

// threadEnded: the current thread has no frames left.
func (x *Exec) threadEnded(s *State) {
	t := s.thread()
	t.Done = true
	if t.Panicking != nil {
		x.oblige(s, "panic", "uncaught panic: "+t.PanicPos, s.G)
		return
	}
	if s.Cur == 0 {
		// main thread finished: harness complete
		x.finalStates = append(x.finalStates, s)
		return
	}
	x.schedule(s)
}

func (x *Exec) get(f *Frame, v ssa.Value) Value {
	switch c := v.(type) {
	case *ssa.Const:
		return x.constVal(c)
	case *ssa.Function:
		return &FuncVal{Alts: []FuncAlt{{G: x.tb.True, Fn: c}}}
	case *ssa.Global:
		return nil // handled by caller with state
	case *ssa.Builtin:
		x.fail("builtin %s used as value", c.Name())
	}
	n, ok := f.Info.Num[v]
	if !ok {
		x.fail("value %s (%T) not numbered in %s", v.Name(), v, f.Info.Fn)
	}
	r := f.Regs[n]
	if r == nil {
		x.fail("use of undefined register %s in %s (b%d:%d)", v.Name(), f.Info.Fn, f.Block, f.PC)
	}
	if ov, ok := r.(*OpaqueVal); ok && ov.Kind == "poison" {
		x.fail("use of a register merged from incompatible opaque values: %s in %s", v.Name(), f.Info.Fn)
	}
	return r
}

func (x *Exec) val(s *State, f *Frame, v ssa.Value) Value {
	if g, ok := v.(*ssa.Global); ok {
		return x.globalPtr(s, g)
	}
	return x.get(f, v)
}

func (x *Exec) set(f *Frame, v ssa.Value, val Value) {
	f.Regs[f.Info.Num[v]] = val
}

func (x *Exec) constVal(c *ssa.Const) Value {
	t := c.Type()
	if c.Value == nil {
		return x.zero(t)
	}
	switch u := t.Underlying().(type) {
	case *types.Basic:
		switch {
		case u.Info()&types.IsBoolean != 0:
			return x.tb.Bool(constant.BoolVal(c.Value))
		case u.Info()&types.IsString != 0:
			return x.str(constant.StringVal(c.Value))
		case u.Info()&types.IsInteger != 0:
			w := x.intWidth(u)
			if i, ok := constant.Int64Val(constant.ToInt(c.Value)); ok {
				return x.tb.BV(w, uint64(i))
			}
			uv, _ := constant.Uint64Val(constant.ToInt(c.Value))
			return x.tb.BV(w, uv)
		case u.Info()&types.IsFloat != 0:
			fv, _ := constant.Float64Val(c.Value)
			return &OpaqueVal{Kind: "float", X: fv}
		}
	}
	x.fail("unsupported constant %s of type %s", c, t)
	return nil
}

func (x *Exec) globalPtr(s *State, g *ssa.Global) *PtrVal {
	id, ok := x.globals[g]
	if !ok {
		// os.ErrNotExist, fs.ErrNotExist and internal/oserror.ErrNotExist (etc.) are one and the same
		// error value in the real library: they share one object here too
		alias := ""
		if g.Pkg != nil {
			switch g.Pkg.Pkg.Path() {
			case "os", "io/fs", "internal/oserror":
				switch g.Name() {
				case "ErrNotExist", "ErrExist", "ErrPermission", "ErrClosed", "ErrInvalid":
					alias = g.Name()
				}
			}
		}
		if alias != "" && !x.isInitPkg(g.Pkg) {
			if aid, ok := x.errAlias[alias]; ok {
				id = aid
			} else {
				id = 1<<60 + x.nextOb
				x.nextOb++
				if x.errAlias == nil {
					x.errAlias = map[string]int{}
				}
				x.errAlias[alias] = id
			}
		} else {
			id = 1<<60 + x.nextOb
			x.nextOb++
		}
		x.globals[g] = id
	}
	if _, ok := s.Heap[id]; !ok {
		et := g.Type().(*types.Pointer).Elem()
		v := x.zero(et)
		if !x.isInitPkg(g.Pkg) && !types.Identical(et, errorType) && !x.isStubPkg(g.Pkg.Pkg.Path()) && !uninitOK[g.Pkg.Pkg.Path()+"."+g.Name()] {
			// the initialiser of this package is not executed: its variables would read as zero
			// values, which is wrong for statically initialised tables
			x.fail("global %s.%s is used but the initialiser of its package is not executed (add the package to InitPkgs)", g.Pkg.Pkg.Path(), g.Name())
		}
		// sentinel errors of packages whose init we do not run: a unique error object per global
		if types.Identical(et, errorType) && !x.isInitPkg(g.Pkg) {
			eo := x.newObj(&StructVal{F: []Value{x.str(g.Pkg.Pkg.Path() + "." + g.Name())}}, s)
			v = &IfaceVal{Alts: []IfaceAlt{{G: x.tb.True, T: errStringPtrType(x), V: x.ptrTo(eo)}}}
		}
		s.Heap[id] = v
	}
	return x.ptrTo(id)
}

var errorType = types.Universe.Lookup("error").Type()

// uninitOK lists globals of packages without executed initialiser whose zero value is their
// correct initial value.
var uninitOK = map[string]bool{
	"internal/bytealg.MaxLen":   true,
	"net/http.NoBody":           true,
	"context.backgroundCtx":     true,
	"io.ErrShortWrite":          true,
	"sync.expunged":             true,
	"time.localLoc":             true,
	"time.utcLoc":               true,
	"time.UTC":                  true,
	"time.Local":                true,
	"container/list.init$guard": true,
}

var cachedErrStrType types.Type

// errStringPtrType returns *errors.errorString (falls back to a synthetic named type).
func errStringPtrType(x *Exec) types.Type {
	if cachedErrStrType != nil {
		return cachedErrStrType
	}
	if p := x.Prog.ImportedPackage("errors"); p != nil {
		if m := p.Members["errorString"]; m != nil {
			cachedErrStrType = types.NewPointer(m.Type())
			return cachedErrStrType
		}
	}
	st := types.NewStruct([]*types.Var{types.NewVar(token.NoPos, nil, "s", types.Typ[types.String])}, nil)
	cachedErrStrType = types.NewPointer(types.NewNamed(types.NewTypeName(token.NoPos, nil, "errorString", nil), st, nil))
	return cachedErrStrType
}

func (x *Exec) isInitPkg(p *ssa.Package) bool {
	if p == nil {
		return false
	}
	for _, ip := range x.cfg.InitPkgs {
		if p.Pkg.Path() == ip {
			return true
		}
	}
	return false
}

// enterBlock moves frame f along the edge to block `to`, resolving phis. Returns false if the
// unwinding bound was hit (state killed, obligation recorded).
func (x *Exec) enterBlock(s *State, f *Frame, to *ssa.BasicBlock) bool {
	from := f.Block
	fi := f.Info
	// loop iteration bookkeeping
	var nit map[int]int
	for _, h := range fi.Loops[to.Index] {
		if nit == nil {
			nit = map[int]int{}
		}
		if fi.InLoop[from][h] {
			c := f.Iter[h]
			if to.Index == h {
				c++
			}
			nit[h] = c
		} else {
			nit[h] = 0
		}
	}
	f.Iter = nit
	if len(fi.Loops[to.Index]) > 0 && to.Index == fi.Loops[to.Index][len(fi.Loops[to.Index])-1] {
		lim := x.cfg.MaxUnwind
		if b, ok := x.cfg.LoopBounds[fi.Fn.String()]; ok {
			lim = b
		}
		if nit[to.Index] > lim {
			x.oblige(s, "unwind", fmt.Sprintf("loop bound %d exceeded in %s", lim, fi.Fn), s.G)
			s.dead = true
			return false
		}
	}
	// phis (parallel assignment)
	pi := -1
	for i, p := range to.Preds {
		if p.Index == from {
			pi = i
			break
		}
	}
	var vals []Value
	var phis []*ssa.Phi
	for _, ins := range to.Instrs {
		ph, ok := ins.(*ssa.Phi)
		if !ok {
			break
		}
		phis = append(phis, ph)
		vals = append(vals, x.val(s, f, ph.Edges[pi]))
	}
	for i, ph := range phis {
		x.set(f, ph, vals[i])
	}
	f.Prev = from
	f.Block = to.Index
	f.PC = len(phis)
	x.NBlocks++
	return true
}

// step executes one instruction. Returns false when the state has been queued/ended.
func (x *Exec) step(s *State, f *Frame, ins ssa.Instruction) bool {
	tb := x.tb
	switch in := ins.(type) {
	case *ssa.DebugRef:
		f.PC++
		return true
	case *ssa.Phi:
		x.fail("phi executed out of block entry in %s", f.Info.Fn)
	case *ssa.Jump:
		to := in.Block().Succs[0]
		if !x.enterBlock(s, f, to) {
			return false
		}
		if f.Info.NPreds[to.Index] > 1 {
			x.push(s)
			return false
		}
		return true
	case *ssa.If:
		c := x.get(f, in.Cond).(*Term)
		succs := in.Block().Succs
		if c.IsConst() {
			to := succs[0]
			if c.K == 0 {
				to = succs[1]
			}
			if !x.enterBlock(s, f, to) {
				return false
			}
			if f.Info.NPreds[to.Index] > 1 {
				x.push(s)
				return false
			}
			return true
		}
		gt := tb.And(s.G, c)
		gf := tb.And(s.G, tb.Not(c))
		switch x.implied(s, c) {
		case 1:
			gf = tb.False
		case -1:
			gt = tb.False
		}
		if x.cfg.CheckFeasib && x.feas != nil {
			if !gt.IsFalse() && !x.feasible(gt) {
				gt = tb.False
			}
			if !gf.IsFalse() && !gt.IsFalse() && !x.feasible(gf) {
				gf = tb.False
			}
		}
		if gt.IsFalse() || gf.IsFalse() {
			to := succs[0]
			if gt.IsFalse() {
				to = succs[1]
				if x.implied(s, c) == 0 {
					x.constrain(s, tb.Not(c))
				}
			} else if x.implied(s, c) == 0 {
				x.constrain(s, c)
			}
			if s.dead || s.G.IsFalse() {
				s.dead = true
				return false
			}
			if !x.enterBlock(s, f, to) {
				return false
			}
			if f.Info.NPreds[to.Index] > 1 {
				x.push(s)
				return false
			}
			return true
		}
		x.NForks++
		if dbgFork != "" && strings.Contains(f.Info.Fn.String(), dbgFork) {
			showDepth = 6
			fmt.Printf("FORK in %s tags=%v cond=%s\n", f.Info.Fn.Name(), s.Tags, x.tb.Show(c))
			showDepth = 4
		}
		s2 := s.clone()
		x.constrain(s, c)
		x.constrain(s2, tb.Not(c))
		if x.enterBlock(s, f, succs[0]) {
			x.push(s)
		}
		if x.enterBlock(s2, s2.top(), succs[1]) {
			x.push(s2)
		}
		return false
	case *ssa.Return:
		var res Value
		switch len(in.Results) {
		case 0:
		case 1:
			res = x.val(s, f, in.Results[0])
		default:
			tv := &TupleVal{E: make([]Value, len(in.Results))}
			for i, r := range in.Results {
				tv.E[i] = x.val(s, f, r)
			}
			res = tv
		}
		x.doReturn(s, res)
		return false
	case *ssa.RunDefers:
		if len(f.Defers) == 0 {
			f.PC++
			return true
		}
		d := f.Defers[len(f.Defers)-1]
		f.Defers = f.Defers[:len(f.Defers)-1]
		// the deferred call returns to this same RunDefers instruction
		x.callDeferred(s, f, d)
		return false
	case *ssa.Panic:
		v := x.val(s, f, in.X)
		x.raise(s, s.G, "explicit panic", v)
		s.dead = true
		return false
	case *ssa.Go:
		return x.doGo(s, f, in)
	case *ssa.Defer:
		f.Defers = append(f.Defers, x.makeDeferRec(s, f, &in.Call))
		f.PC++
		return true
	case *ssa.Send:
		return x.doSend(s, f, in)
	case *ssa.Select:
		return x.doSelect(s, f, in)
	case *ssa.Store:
		addr := x.val(s, f, in.Addr).(*PtrVal)
		v := x.val(s, f, in.Val)
		if !x.store(s, addr, v) {
			return false
		}
		f.PC++
		return true
	case *ssa.MapUpdate:
		m := x.val(s, f, in.Map).(*PtrVal)
		k := x.val(s, f, in.Key)
		v := x.val(s, f, in.Value)
		if !x.mapUpdate(s, m, k, v) {
			return false
		}
		f.PC++
		return true
	case *ssa.Call:
		return x.doCall(s, f, in)
	case *ssa.UnOp:
		if in.Op == token.ARROW {
			return x.doRecv(s, f, in)
		}
		v, ok := x.evalValue(s, f, in)
		if !ok {
			return false
		}
		x.set(f, in, v)
		f.PC++
		return true
	case ssa.Value:
		v, ok := x.evalValue(s, f, in)
		if !ok {
			return false
		}
		x.set(f, in, v)
		f.PC++
		return true
	}
	x.fail("unsupported instruction %T: %s in %s", ins, ins, f.Info.Fn)
	return false
}

// doReturn pops the top frame and delivers the result.
func (x *Exec) doReturn(s *State, res Value) {
	t := s.thread()
	f := t.Frames[len(t.Frames)-1]
	if os.Getenv("GOSMT_DEBUGRET") != "" && strings.Contains(f.Info.Fn.String(), os.Getenv("GOSMT_DEBUGRET")) {
		showDepth = 10
		fmt.Printf("RET %s tags=%v guardconst=%v res=%s\n  GUARD=%s\n", f.Info.Fn.Name(), s.Tags, s.G.IsTrue(), x.showVal(res), x.tb.Show(s.G))
		showDepth = 4
	}
	t.Frames = t.Frames[:len(t.Frames)-1]
	if f.OnReturn != nil {
		f.OnReturn(s, res)
	} else if len(t.Frames) > 0 {
		c := t.Frames[len(t.Frames)-1]
		if f.Dst != nil {
			x.set(c, f.Dst, res)
		}
	}
	if len(t.Frames) == 0 {
		x.threadEnded(s)
		return
	}
	x.push(s)
}

// evalValue computes a value-producing, non-call instruction.
func (x *Exec) evalValue(s *State, f *Frame, ins ssa.Value) (Value, bool) {
	tb := x.tb
	switch in := ins.(type) {
	case *ssa.Alloc:
		et := in.Type().(*types.Pointer).Elem()
		id := x.newObj(x.zero(et), s)
		return x.ptrTo(id), true
	case *ssa.BinOp:
		a := x.val(s, f, in.X)
		b := x.val(s, f, in.Y)
		return x.binop(s, in.Op, in.X.Type(), a, b)
	case *ssa.UnOp:
		a := x.val(s, f, in.X)
		switch in.Op {
		case token.NOT:
			return tb.Not(a.(*Term)), true
		case token.SUB:
			return tb.Neg(a.(*Term)), true
		case token.XOR:
			return tb.BNot(a.(*Term)), true
		case token.MUL:
			return x.load(s, a.(*PtrVal), in.Type())
		case token.ARROW:
			x.fail("channel receive must be handled by doRecv")
		}
	case *ssa.ChangeType:
		return x.val(s, f, in.X), true
	case *ssa.ChangeInterface:
		return x.val(s, f, in.X), true
	case *ssa.Convert:
		return x.convert(s, x.val(s, f, in.X), in.X.Type(), in.Type())
	case *ssa.MakeInterface:
		v := x.val(s, f, in.X)
		return &IfaceVal{Alts: []IfaceAlt{{G: tb.True, T: in.X.Type(), V: v}}}, true
	case *ssa.MakeClosure:
		fn := in.Fn.(*ssa.Function)
		bs := make([]Value, len(in.Bindings))
		for i, b := range in.Bindings {
			bs[i] = x.val(s, f, b)
		}
		return &FuncVal{Alts: []FuncAlt{{G: tb.True, Fn: fn, Bindings: bs}}}, true
	case *ssa.MakeMap:
		mt := in.Type().Underlying().(*types.Map)
		id := x.newObj(&MapObj{KT: mt.Key(), VT: mt.Elem()}, s)
		return x.ptrTo(id), true
	case *ssa.MakeChan:
		sz := x.val(s, f, in.Size).(*Term)
		if !sz.IsConst() {
			x.fail("symbolic channel capacity")
		}
		ct := in.Type().Underlying().(*types.Chan)
		return x.makeChan(s, int(sz.K), ct.Elem()), true
	case *ssa.MakeSlice:
		ln := x.val(s, f, in.Len).(*Term)
		cp := x.val(s, f, in.Cap).(*Term)
		return x.makeSlice(s, in.Type().Underlying().(*types.Slice).Elem(), ln, cp)
	case *ssa.FieldAddr:
		p := x.val(s, f, in.X).(*PtrVal)
		return x.fieldAddr(s, p, in.Field)
	case *ssa.Field:
		sv := x.val(s, f, in.X).(*StructVal)
		return sv.F[in.Field], true
	case *ssa.IndexAddr:
		base := x.val(s, f, in.X)
		idx := x.toInt64(x.val(s, f, in.Index).(*Term), in.Index.Type())
		return x.indexAddr(s, base, idx)
	case *ssa.Index:
		base := x.val(s, f, in.X)
		idx := x.toInt64(x.val(s, f, in.Index).(*Term), in.Index.Type())
		switch bv := base.(type) {
		case *StrVal:
			if !x.panicIf(s, tb.Not(tb.ULt(idx, bv.Len)), "index out of range (string)") {
				return nil, false
			}
			return x.strByteAt(bv, idx), true
		case *ArrayVal:
			if !x.panicIf(s, tb.Not(tb.ULt(idx, tb.Int64(int64(len(bv.E))))), "index out of range (array)") {
				return nil, false
			}
			return x.arrayAt(bv, idx), true
		}
	case *ssa.Lookup:
		base := x.val(s, f, in.X)
		k := x.val(s, f, in.Index)
		switch bv := base.(type) {
		case *StrVal:
			idx := x.toInt64(k.(*Term), in.Index.Type())
			if !x.panicIf(s, tb.Not(tb.ULt(idx, bv.Len)), "index out of range (string)") {
				return nil, false
			}
			return x.strByteAt(bv, idx), true
		case *PtrVal:
			mt := in.X.Type().Underlying().(*types.Map)
			v, ok := x.mapLookup(s, bv, k, mt.Elem())
			if in.CommaOk {
				return &TupleVal{E: []Value{v, ok}}, true
			}
			return v, true
		}
	case *ssa.Slice:
		return x.sliceOp(s, f, in)
	case *ssa.Extract:
		tv := x.val(s, f, in.Tuple).(*TupleVal)
		return tv.E[in.Index], true
	case *ssa.TypeAssert:
		return x.typeAssert(s, f, in)
	case *ssa.Range:
		v := x.val(s, f, in.X)
		return x.makeRange(s, v, in.X.Type())
	case *ssa.Next:
		it := x.val(s, f, in.Iter)
		return x.rangeNext(s, f, in, it)
	case *ssa.SliceToArrayPointer:
		sl := x.val(s, f, in.X).(*SliceVal)
		return sl.Ptr, true
	}
	x.fail("unsupported value instruction %T: %s in %s", ins, ins, f.Info.Fn)
	return nil, false
}

func (x *Exec) toInt64(t *Term, typ types.Type) *Term {
	if t.W == 64 {
		return t
	}
	if isUnsigned(typ) {
		return x.tb.ZExt(t, 64)
	}
	return x.tb.SExt(t, 64)
}

func (x *Exec) arrayAt(a *ArrayVal, idx *Term) Value {
	if idx.IsConst() {
		return a.E[idx.K]
	}
	var r Value
	for i := len(a.E) - 1; i >= 0; i-- {
		if uint64(i) < idx.Lo || uint64(i) > idx.Hi {
			continue
		}
		if r == nil {
			r = a.E[i]
		} else {
			r = x.ite(x.tb.Eq(idx, x.tb.Int64(int64(i))), a.E[i], r)
		}
	}
	if r == nil {
		r = a.E[0]
	}
	return r
}

// ---------- binary operators ----------

func (x *Exec) binop(s *State, op token.Token, xt types.Type, a, b Value) (Value, bool) {
	tb := x.tb
	switch av := a.(type) {
	case *Term:
		bv, ok := b.(*Term)
		if !ok {
			x.fail("binop %s on Term and %T", op, b)
		}
		if av.W == 0 {
			switch op {
			case token.EQL:
				return tb.Eq(av, bv), true
			case token.NEQ:
				return tb.Not(tb.Eq(av, bv)), true
			case token.AND:
				return tb.And(av, bv), true
			case token.OR:
				return tb.Or(av, bv), true
			}
			x.fail("unsupported bool binop %s", op)
		}
		uns := isUnsigned(xt)
		// shifts: operand widths may differ
		if op == token.SHL || op == token.SHR {
			return x.shift(op, av, bv, uns), true
		}
		switch op {
		case token.ADD:
			return tb.Add(av, bv), true
		case token.SUB:
			return tb.Sub(av, bv), true
		case token.MUL:
			return tb.Mul(av, bv), true
		case token.QUO:
			if !x.panicIf(s, tb.Eq(bv, tb.BV(bv.W, 0)), "integer divide by zero") {
				return nil, false
			}
			if uns {
				return tb.UDiv(av, bv), true
			}
			return tb.SDiv(av, bv), true
		case token.REM:
			if !x.panicIf(s, tb.Eq(bv, tb.BV(bv.W, 0)), "integer divide by zero") {
				return nil, false
			}
			if uns {
				return tb.URem(av, bv), true
			}
			return tb.SRem(av, bv), true
		case token.AND:
			return tb.BAnd(av, bv), true
		case token.OR:
			return tb.BOr(av, bv), true
		case token.XOR:
			return tb.BXor(av, bv), true
		case token.AND_NOT:
			return tb.BAnd(av, tb.BNot(bv)), true
		case token.EQL:
			return tb.Eq(av, bv), true
		case token.NEQ:
			return tb.Not(tb.Eq(av, bv)), true
		case token.LSS:
			if uns {
				return tb.ULt(av, bv), true
			}
			return tb.SLt(av, bv), true
		case token.LEQ:
			if uns {
				return tb.ULe(av, bv), true
			}
			return tb.SLe(av, bv), true
		case token.GTR:
			if uns {
				return tb.ULt(bv, av), true
			}
			return tb.SLt(bv, av), true
		case token.GEQ:
			if uns {
				return tb.ULe(bv, av), true
			}
			return tb.SLe(bv, av), true
		}
	case *StrVal:
		bv := b.(*StrVal)
		switch op {
		case token.ADD:
			return x.strConcat(av, bv), true
		case token.EQL:
			return x.strEq(av, bv), true
		case token.NEQ:
			return tb.Not(x.strEq(av, bv)), true
		case token.LSS:
			return x.strLess(av, bv), true
		case token.GTR:
			return x.strLess(bv, av), true
		case token.LEQ:
			return tb.Not(x.strLess(bv, av)), true
		case token.GEQ:
			return tb.Not(x.strLess(av, bv)), true
		}
	default:
		switch op {
		case token.EQL:
			return x.valueEq(a, b), true
		case token.NEQ:
			return tb.Not(x.valueEq(a, b)), true
		}
	}
	x.fail("unsupported binop %s on %T", op, a)
	return nil, false
}

func (x *Exec) shift(op token.Token, a, cnt *Term, uns bool) *Term {
	tb := x.tb
	w := a.W
	// count is unsigned (Go 1.13+: signed counts panic if negative; not modelled: counts are constants in practice)
	var c *Term
	if cnt.W == w {
		c = cnt
	} else if cnt.W < w {
		c = tb.ZExt(cnt, w)
	} else {
		// wider count: saturate
		big := tb.Not(tb.ULt(cnt, tb.BV(cnt.W, uint64(w))))
		c = tb.Ite(big, tb.BV(w, uint64(w)), tb.Extract(cnt, w-1, 0))
	}
	if op == token.SHL {
		return tb.Shl(a, c)
	}
	if uns {
		return tb.LShr(a, c)
	}
	return tb.AShr(a, c)
}

// valueEq: equality of non-scalar comparable values.
func (x *Exec) valueEq(a, b Value) *Term {
	tb := x.tb
	switch av := a.(type) {
	case *Term:
		return tb.Eq(av, b.(*Term))
	case *StrVal:
		return x.strEq(av, b.(*StrVal))
	case *PtrVal:
		bv, ok := b.(*PtrVal)
		if !ok {
			// comparing e.g. slice/func with nil constant
			return x.valueEq(b, a)
		}
		r := tb.False
		for _, p := range av.Alts {
			for _, q := range bv.Alts {
				if p.Obj == q.Obj && pathEq(p.Path, q.Path) {
					r = tb.Or(r, tb.And(p.G, q.G))
				}
			}
		}
		return r
	case *StructVal:
		bv := b.(*StructVal)
		r := tb.True
		for i := range av.F {
			r = tb.And(r, x.valueEq(av.F[i], bv.F[i]))
		}
		return r
	case *ArrayVal:
		bv := b.(*ArrayVal)
		r := tb.True
		for i := range av.E {
			r = tb.And(r, x.valueEq(av.E[i], bv.E[i]))
		}
		return r
	case *IfaceVal:
		bv, ok := b.(*IfaceVal)
		if !ok {
			x.fail("interface compared with %T", b)
		}
		r := tb.False
		for _, p := range av.Alts {
			for _, q := range bv.Alts {
				if p.T == nil && q.T == nil {
					r = tb.Or(r, tb.And(p.G, q.G))
				} else if p.T != nil && q.T != nil && types.Identical(p.T, q.T) {
					r = tb.Or(r, tb.AndN(p.G, q.G, x.valueEq(p.V, q.V)))
				}
			}
		}
		return r
	case *SliceVal:
		// only comparison with nil is legal
		return x.ptrIsNil(av.Ptr)
	case *FuncVal:
		bv, ok := b.(*FuncVal)
		r := tb.False
		for _, p := range av.Alts {
			if p.Fn == nil && p.Intrinsic == "" {
				if !ok {
					r = tb.Or(r, p.G)
					continue
				}
				for _, q := range bv.Alts {
					if q.Fn == nil && q.Intrinsic == "" {
						r = tb.Or(r, tb.And(p.G, q.G))
					}
				}
			}
		}
		return r
	case *OpaqueVal:
		bv := b.(*OpaqueVal)
		return tb.Bool(av.X == bv.X)
	}
	x.fail("valueEq: unsupported kind %T", a)
	return nil
}

func (x *Exec) ptrIsNil(p *PtrVal) *Term {
	r := x.tb.False
	for _, a := range p.Alts {
		if a.Obj == 0 {
			r = x.tb.Or(r, a.G)
		}
	}
	return r
}

// ---------- conversions ----------

func (x *Exec) convert(s *State, v Value, from, to types.Type) (Value, bool) {
	tb := x.tb
	fu, tu := from.Underlying(), to.Underlying()
	if fb, ok := fu.(*types.Basic); ok {
		if tbb, ok := tu.(*types.Basic); ok {
			// integer <-> integer
			if fb.Info()&types.IsInteger != 0 && tbb.Info()&types.IsInteger != 0 {
				t := v.(*Term)
				tw := x.intWidth(tbb)
				if tw <= t.W {
					return tb.Extract(t, tw-1, 0), true
				}
				if fb.Info()&types.IsUnsigned != 0 {
					return tb.ZExt(t, tw), true
				}
				return tb.SExt(t, tw), true
			}
			// integer -> string (rune to string): ASCII only
			if fb.Info()&types.IsInteger != 0 && tbb.Info()&types.IsString != 0 {
				t := v.(*Term)
				t64 := x.toInt64(t, from)
				x.oblige(s, "escape", "string(rune) of a non-ASCII rune", tb.And(s.G, tb.Not(tb.ULt(t64, tb.Int64(128)))))
				return &StrVal{B: []*Term{tb.Extract(t, 7, 0)}, Len: tb.Int64(1)}, true
			}
			if fb.Info()&types.IsString != 0 && tbb.Info()&types.IsString != 0 {
				return v, true
			}
			if fb.Info()&types.IsFloat != 0 || tbb.Info()&types.IsFloat != 0 {
				// floats are outside the encoding; carry an opaque value (only reaches stubs)
				return &OpaqueVal{Kind: "float"}, true
			}
		}
		// string -> []byte / []rune
		if sl, ok := tu.(*types.Slice); ok && fb.Info()&types.IsString != 0 {
			sv := v.(*StrVal)
			eb := sl.Elem().Underlying().(*types.Basic)
			n := len(sv.B)
			arr := &ArrayVal{E: make([]Value, n)}
			if eb.Kind() == types.Uint8 {
				for i := range arr.E {
					arr.E[i] = sv.B[i]
				}
			} else {
				// []rune: exact for ASCII; escape otherwise
				esc := tb.False
				for i := range arr.E {
					arr.E[i] = tb.ZExt(sv.B[i], 32)
					in := tb.ULt(tb.Int64(int64(i)), sv.Len)
					esc = tb.Or(esc, tb.And(in, tb.Not(tb.ULt(sv.B[i], tb.BV(8, 128)))))
				}
				x.oblige(s, "escape", "[]rune(string) with a non-ASCII byte", tb.And(s.G, esc))
			}
			id := x.newObj(arr, s)
			return &SliceVal{Ptr: x.ptrTo(id, 0), Len: sv.Len, Cap: tb.Int64(int64(n))}, true
		}
	}
	// []byte / []rune -> string
	if sl, ok := fu.(*types.Slice); ok {
		if tbb, ok := tu.(*types.Basic); ok && tbb.Info()&types.IsString != 0 {
			sv := v.(*SliceVal)
			eb := sl.Elem().Underlying().(*types.Basic)
			elems, ok2 := x.sliceElems(s, sv)
			if !ok2 {
				return nil, false
			}
			out := &StrVal{B: make([]*Term, len(elems)), Len: sv.Len}
			for i, e := range elems {
				t := e.(*Term)
				if eb.Kind() == types.Uint8 {
					out.B[i] = t
				} else {
					out.B[i] = tb.Extract(t, 7, 0)
					in := tb.ULt(tb.Int64(int64(i)), sv.Len)
					x.oblige(s, "escape", "string([]rune) with a non-ASCII rune", tb.AndN(s.G, in, tb.Not(tb.ULt(t, tb.BV(t.W, 128)))))
				}
			}
			return out, true
		}
	}
	// pointer conversions (unsafe.Pointer etc.)
	if _, ok := v.(*PtrVal); ok {
		return v, true
	}
	x.fail("unsupported conversion %s -> %s", from, to)
	return nil, false
}

// sliceElems returns the elements [0, maxLen) of a slice as values (reads through the guarded
// backing-array pointer).
func (x *Exec) sliceElems(s *State, sv *SliceVal) ([]Value, bool) {
	n := int(sv.Len.Hi)
	if sv.Len.Hi > 1<<20 {
		x.fail("slice with unbounded symbolic length at %s", x.posOf(s))
	}
	out := make([]Value, n)
	for i := 0; i < n; i++ {
		var r Value
		for _, a := range sv.Ptr.Alts {
			if a.Obj == 0 {
				continue
			}
			obj := s.Heap[a.Obj]
			base := getPath(obj, a.Path[:len(a.Path)-1])
			arr := base.(*ArrayVal)
			j := a.Path[len(a.Path)-1] + i
			if j >= len(arr.E) {
				continue
			}
			if r == nil {
				r = arr.E[j]
			} else {
				r = x.ite(a.G, arr.E[j], r)
			}
		}
		if r == nil {
			// beyond every alternative's backing array: no live index reaches here (len <= cap)
			return out[:i], true
		}
		out[i] = r
	}
	return out, true
}

var traceFn = os.Getenv("GOSMT_TRACEFN")
var dbgFork = os.Getenv("GOSMT_DEBUGFORK")
var profTerms = os.Getenv("GOSMT_PROFTERMS") != ""

func (x *Exec) showVal(v Value) string {
	switch c := v.(type) {
	case nil:
		return "<none>"
	case *Term:
		return x.tb.Show(c)
	case *StrVal:
		if s, ok := x.concreteStr(c); ok {
			return fmt.Sprintf("%q", s)
		}
		return "str(len=" + x.tb.Show(c.Len) + ")"
	case *TupleVal:
		r := "("
		for _, e := range c.E {
			r += x.showVal(e) + ", "
		}
		return r + ")"
	case *StructVal:
		r := "{"
		for _, e := range c.F {
			r += x.showVal(e) + ", "
		}
		return r + "}"
	case *ArrayVal:
		r := "["
		for i, e := range c.E {
			if i > 6 {
				r += "..."
				break
			}
			r += x.showVal(e) + ", "
		}
		return r + "]"
	}
	return fmt.Sprintf("%T", v)
}

// timeType returns the types.Type of time.Time.
func timeType(x *Exec) types.Type {
	if p := x.Prog.ImportedPackage("time"); p != nil {
		if m := p.Members["Time"]; m != nil {
			return m.Type()
		}
	}
	x.fail("package time not loaded")
	return nil
}
