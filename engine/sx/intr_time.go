package sx

// Model of time.Time used by every time intrinsic: wall = 0, ext = nanoseconds since the Unix
// epoch (int64), loc = nil. All Time methods that inbucket's verified code uses are intrinsics over
// this representation (no division by 1e9 ever reaches the solver); durations are int64
// nanoseconds as in Go. The zero Time is ext = 0.

import "time"

func (x *Exec) timeNs(v Value) *Term { return v.(*StructVal).F[1].(*Term) }

func (x *Exec) mkTime(proto Value, ns *Term) Value {
	t := proto.(*StructVal)
	n := &StructVal{F: append([]Value(nil), t.F...)}
	n.F[0] = x.tb.BV(64, 0)
	n.F[1] = ns
	return n
}

const fixedNowNs = int64(1700000000) * 1000000000

func init() {
	RegisterIntrinsic("time.Now", func(x *Exec, s *State, c *CallCtx) Value {
		z := x.zero(c.RT)
		if x.SymClock {
			return x.mkTime(z, x.clockRead())
		}
		return x.mkTime(z, x.tb.Int64(fixedNowNs))
	})
	RegisterIntrinsic("time.Unix", func(x *Exec, s *State, c *CallCtx) Value {
		sec, nsec := c.Args[0].(*Term), c.Args[1].(*Term)
		ns := x.tb.Add(x.tb.Mul(sec, x.tb.Int64(1000000000)), nsec)
		return x.mkTime(x.zero(c.RT), ns)
	})
	RegisterIntrinsic(VrfPkg+".SymbolicClock", func(x *Exec, s *State, c *CallCtx) Value {
		x.SymClock = true
		return nil
	})
	RegisterIntrinsic("(time.Time).Add", func(x *Exec, s *State, c *CallCtx) Value {
		return x.mkTime(c.Args[0], x.tb.Add(x.timeNs(c.Args[0]), c.Args[1].(*Term)))
	})
	RegisterIntrinsic("(time.Time).Sub", func(x *Exec, s *State, c *CallCtx) Value {
		return x.tb.Sub(x.timeNs(c.Args[0]), x.timeNs(c.Args[1]))
	})
	RegisterIntrinsic("time.Since", func(x *Exec, s *State, c *CallCtx) Value {
		var now *Term
		if x.SymClock {
			now = x.clockRead()
		} else {
			now = x.tb.Int64(fixedNowNs)
		}
		return x.tb.Sub(now, x.timeNs(c.Args[0]))
	})
	RegisterIntrinsic("(time.Time).Before", func(x *Exec, s *State, c *CallCtx) Value {
		return x.tb.SLt(x.timeNs(c.Args[0]), x.timeNs(c.Args[1]))
	})
	RegisterIntrinsic("(time.Time).After", func(x *Exec, s *State, c *CallCtx) Value {
		return x.tb.SLt(x.timeNs(c.Args[1]), x.timeNs(c.Args[0]))
	})
	RegisterIntrinsic("(time.Time).Equal", func(x *Exec, s *State, c *CallCtx) Value {
		return x.tb.Eq(x.timeNs(c.Args[0]), x.timeNs(c.Args[1]))
	})
	RegisterIntrinsic("(time.Time).IsZero", func(x *Exec, s *State, c *CallCtx) Value {
		return x.tb.Eq(x.timeNs(c.Args[0]), x.tb.Int64(0))
	})
	RegisterIntrinsic("(time.Time).UnixNano", func(x *Exec, s *State, c *CallCtx) Value { return x.timeNs(c.Args[0]) })
	RegisterIntrinsic("(time.Time).Unix", func(x *Exec, s *State, c *CallCtx) Value {
		return x.tb.SDiv(x.timeNs(c.Args[0]), x.tb.Int64(1000000000))
	})
	RegisterIntrinsic("(time.Time).UTC", func(x *Exec, s *State, c *CallCtx) Value { return c.Args[0] })
	RegisterIntrinsic("(time.Time).Local", func(x *Exec, s *State, c *CallCtx) Value { return c.Args[0] })
	RegisterIntrinsic("(time.Time).Format", func(x *Exec, s *State, c *CallCtx) Value {
		// concrete instant and layout: the real rendering (UTC); otherwise the rendered timestamp is
		// not inspected: a fixed-width placeholder
		if ns := x.timeNs(c.Args[0]); ns.IsConst() {
			if layout, ok := x.concreteStr(c.Args[1].(*StrVal)); ok {
				return x.str(time.Unix(0, ns.SVal()).UTC().Format(layout))
			}
		}
		return x.str("Thu, 01 Jan 2026 00:00:00 +0000 (UTC)")
	})
	RegisterIntrinsic("(time.Duration).String", func(x *Exec, s *State, c *CallCtx) Value { return x.str("1s") })
	RegisterIntrinsic("time.Sleep", func(x *Exec, s *State, c *CallCtx) Value { return nil })
	RegisterIntrinsic("time.After", func(x *Exec, s *State, c *CallCtx) Value {
		// a timer channel: it holds its value at once iff d <= 0; otherwise the value arrives when
		// the receiver would block (see ChanObj.Timer)
		d := c.Args[0].(*Term)
		p := x.makeChan(s, 1, timeType(x)).(*PtrVal)
		ch, id := x.chanOf(s, p)
		n := *ch
		n.Timer = true
		n.Buf = []Value{x.mkTime(x.zero(timeType(x)), x.tb.Int64(fixedNowNs))}
		n.Len = x.tb.Ite(x.tb.SLe(d, x.tb.Int64(0)), x.tb.Int64(1), x.tb.Int64(0))
		s.Heap[id] = &n
		return p
	})
}
