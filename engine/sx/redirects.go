package sx

// redirectTable maps real functions to models written in Go in the zzvrf package (executed
// symbolically like any other code). Native builds never use the models.
var redirectTable = map[string]string{
	"net/textproto.NewConn":                           "ModelTextprotoNewConn",
	"(*net/textproto.Reader).ReadLine":                "ModelTextprotoReadLine",
	"(*net/textproto.Reader).ReadDotBytes":            "ModelTextprotoReadDotBytes",
	"(*net/textproto.Reader).DotReader":               "ModelTextprotoDotReader",
	"(*net/textproto.Writer).PrintfLine":              "ModelTextprotoPrintfLine",
	"(*net/textproto.Conn).Close":                     "ModelTextprotoClose",
	"bufio.NewReader":                                 "ModelBufioNewReader",
	"(*bufio.Reader).ReadString":                      "ModelBufioReadString",
	"(*bufio.Reader).ReadLine":                        "ModelBufioReadLine",
	"(*bufio.Reader).Reset":                           "ModelBufioReset",
	"bufio.NewScanner":                                "ModelBufioNewScanner",
	"(*bufio.Scanner).Scan":                           "ModelScannerScan",
	"(*bufio.Scanner).Text":                           "ModelScannerText",
	"(*bufio.Scanner).Err":                            "ModelScannerErr",
	"(*bufio.Scanner).Buffer":                         "ModelScannerBuffer",
	"github.com/jhillyerd/enmime/v2.DecodeHeaders":    "ModelEnmimeDecodeHeaders",
	"github.com/jhillyerd/enmime/v2.ParseAddressList": "ModelEnmimeParseAddressList",
	"(net/textproto.MIMEHeader).Get":                  "ModelMIMEHeaderGet",
	"net/http.NotFound":                               "ModelHTTPNotFound",
	"net/http.Error":                                  "ModelHTTPError",
	"(net/http.Header).Set":                           "ModelHeaderSet",
	"github.com/gorilla/mux.SetURLVars":               "ModelMuxSetURLVars",
	"github.com/gorilla/mux.Vars":                     "ModelMuxVars",
	"encoding/json.NewEncoder":                        "ModelJSONNewEncoder",
	"(*encoding/json.Encoder).Encode":                 "ModelJSONEncode",
	"encoding/json.NewDecoder":                        "ModelJSONNewDecoder",
	"(*encoding/json.Decoder).Decode":                 "ModelJSONDecode",
	"io.Copy":                                         "ModelIOCopy",
	"github.com/jhillyerd/enmime/v2.ReadEnvelope":     "ModelEnmimeReadEnvelope",
	"fmt.Fprint":                                      "ModelFprint",
	"sort.Slice":                                      "ModelSortSlice",
	"sort.SliceStable":                                "ModelSortSlice",
	"github.com/kelseyhightower/envconfig.Process":    "ModelEnvconfigProcess",
	// file-system model (harness/zzvrf/vfs.go)
	"os.Stat":                        "ModelOsStat",
	"os.MkdirAll":                    "ModelOsMkdirAll",
	"os.Mkdir":                       "ModelOsMkdir",
	"os.Create":                      "ModelOsCreate",
	"os.Open":                        "ModelOsOpen",
	"os.OpenFile":                    "ModelOsOpenFile",
	"os.Remove":                      "ModelOsRemove",
	"os.RemoveAll":                   "ModelOsRemoveAll",
	"os.Rename":                      "ModelOsRename",
	"(*os.File).Close":               "ModelFileClose",
	"(*os.File).Sync":                "ModelFileSync",
	"(*os.File).Name":                "ModelFileName",
	"(*os.File).Write":               "ModelFileWrite",
	"(*os.File).Readdirnames":        "ModelFileReaddirnames",
	"bufio.NewWriter":                "ModelBufioNewWriter",
	"(*bufio.Writer).Write":          "ModelBufioWrite",
	"(*bufio.Writer).Flush":          "ModelBufioFlush",
	"encoding/gob.NewEncoder":        "ModelGobNewEncoder",
	"(*encoding/gob.Encoder).Encode": "ModelGobEncode",
	"encoding/gob.NewDecoder":        "ModelGobNewDecoder",
	"(*encoding/gob.Decoder).Decode": "ModelGobDecode",
	"(*sync.Pool).Get":               "ModelPoolGet",
	"(*sync.Pool).Put":               "ModelPoolPut",
	"crypto/sha1.New":                "ModelSHA1New",
}

// InstallRedirects resolves the redirect table against the loaded program.
func (x *Exec) InstallRedirects(p *Program) {
	vp := p.Pkgs[VrfPkg]
	if vp == nil {
		return
	}
	for real, model := range redirectTable {
		if fn := vp.Func(model); fn != nil {
			x.Redirects[real] = fn
		}
	}
}
