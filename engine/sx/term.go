// Package sx is the symbolic executor: go/ssa -> guarded symbolic execution -> SMT-LIB2 (QF_BV).
package sx

import (
	"fmt"
	"math/bits"
	"strings"
)

// Op is a term operator.
type Op uint8

const (
	OpConst Op = iota
	OpVar
	OpNot
	OpAnd
	OpOr
	OpIte
	OpEq
	OpAdd
	OpSub
	OpMul
	OpUDiv
	OpURem
	OpSDiv
	OpSRem
	OpBAnd
	OpBOr
	OpBXor
	OpBNot
	OpNeg
	OpShl
	OpLShr
	OpAShr
	OpULt
	OpULe
	OpSLt
	OpSLe
	OpExtract
	OpConcat
	OpZExt
	OpSExt
)

var opNames = map[Op]string{
	OpNot: "not", OpAnd: "and", OpOr: "or", OpIte: "ite", OpEq: "=",
	OpAdd: "bvadd", OpSub: "bvsub", OpMul: "bvmul", OpUDiv: "bvudiv", OpURem: "bvurem",
	OpSDiv: "bvsdiv", OpSRem: "bvsrem", OpBAnd: "bvand", OpBOr: "bvor", OpBXor: "bvxor",
	OpBNot: "bvnot", OpNeg: "bvneg", OpShl: "bvshl", OpLShr: "bvlshr", OpAShr: "bvashr",
	OpULt: "bvult", OpULe: "bvule", OpSLt: "bvslt", OpSLe: "bvsle", OpConcat: "concat",
}

// Term is an immutable hash-consed DAG node. W==0 means Bool, otherwise a bit-vector of W bits.
type Term struct {
	ID      int
	Op      Op
	W       int
	A, B, C *Term
	K       uint64 // constant value | extract hi<<16|lo | extension amount
	Name    string
	Lo, Hi  uint64 // unsigned value range (bit-vectors only)
}

type termKey struct {
	op      Op
	w       int
	a, b, c int
	k       uint64
	name    string
}

// TB builds terms (one per harness instance; not safe for concurrent use).
type TB struct {
	tab    map[termKey]*Term
	next   int
	True   *Term
	False  *Term
	Vars   []*Term
	NTerms int
}

func NewTB() *TB {
	tb := &TB{tab: map[termKey]*Term{}}
	tb.True = tb.mk(&Term{Op: OpConst, W: 0, K: 1})
	tb.False = tb.mk(&Term{Op: OpConst, W: 0, K: 0})
	return tb
}

func id(t *Term) int {
	if t == nil {
		return -1
	}
	return t.ID
}

func mask(w int) uint64 {
	if w >= 64 {
		return ^uint64(0)
	}
	return (uint64(1) << uint(w)) - 1
}

func (tb *TB) mk(t *Term) *Term {
	k := termKey{t.Op, t.W, id(t.A), id(t.B), id(t.C), t.K, t.Name}
	if e, ok := tb.tab[k]; ok {
		return e
	}
	t.ID = tb.next
	tb.next++
	tb.NTerms++
	if t.W > 0 {
		tb.setRange(t)
	}
	tb.tab[k] = t
	return t
}

func (tb *TB) setRange(t *Term) {
	m := mask(t.W)
	t.Lo, t.Hi = 0, m
	switch t.Op {
	case OpConst:
		t.Lo, t.Hi = t.K, t.K
	case OpIte:
		t.Lo, t.Hi = min64(t.B.Lo, t.C.Lo), max64(t.B.Hi, t.C.Hi)
	case OpZExt:
		t.Lo, t.Hi = t.A.Lo, t.A.Hi
	case OpAdd:
		hi, c := bits.Add64(t.A.Hi, t.B.Hi, 0)
		if c == 0 && hi <= m {
			t.Lo, t.Hi = t.A.Lo+t.B.Lo, hi
		}
	case OpSub:
		if t.A.Lo >= t.B.Hi {
			t.Lo, t.Hi = t.A.Lo-t.B.Hi, t.A.Hi-t.B.Lo
		}
	case OpBAnd:
		t.Hi = min64(t.A.Hi, t.B.Hi)
	case OpURem:
		if t.B.Lo > 0 {
			t.Hi = t.B.Hi - 1
		}
	case OpUDiv:
		if t.B.Lo > 0 {
			t.Hi = t.A.Hi / t.B.Lo
			t.Lo = t.A.Lo / t.B.Hi
		}
	case OpLShr:
		if t.B.Op == OpConst && t.B.K < 64 {
			t.Lo, t.Hi = t.A.Lo>>t.B.K, t.A.Hi>>t.B.K
		}
	case OpExtract:
		hi, lo := int(t.K>>16), int(t.K&0xffff)
		if lo == 0 && t.A.Hi <= mask(hi+1) {
			t.Lo, t.Hi = t.A.Lo, t.A.Hi
		}
	case OpMul:
		h, l := bits.Mul64(t.A.Hi, t.B.Hi)
		if h == 0 && l <= m {
			t.Lo, t.Hi = t.A.Lo*t.B.Lo, l
		}
	}
}

func min64(a, b uint64) uint64 {
	if a < b {
		return a
	}
	return b
}
func max64(a, b uint64) uint64 {
	if a > b {
		return a
	}
	return b
}

// ---- constructors ----

func (tb *TB) Bool(b bool) *Term {
	if b {
		return tb.True
	}
	return tb.False
}

func (tb *TB) BV(w int, v uint64) *Term {
	return tb.mk(&Term{Op: OpConst, W: w, K: v & mask(w)})
}

func (tb *TB) Int64(v int64) *Term { return tb.BV(64, uint64(v)) }

// Var declares (or returns) a named variable. w==0: Bool.
func (tb *TB) Var(name string, w int) *Term {
	k := termKey{OpVar, w, -1, -1, -1, 0, name}
	if e, ok := tb.tab[k]; ok {
		return e
	}
	t := tb.mk(&Term{Op: OpVar, W: w, Name: name})
	tb.Vars = append(tb.Vars, t)
	return t
}

// VarRange declares a variable whose value is assumed (by a global assumption the caller adds) to
// lie in [lo, hi]; the range is used for syntactic simplification.
func (tb *TB) VarRange(name string, w int, lo, hi uint64) *Term {
	t := tb.Var(name, w)
	if lo > t.Lo {
		t.Lo = lo
	}
	if hi < t.Hi {
		t.Hi = hi
	}
	return t
}

// ClampU returns min(x, hi) (unsigned) with the range recorded on the node.
func (tb *TB) ClampU(x *Term, hi uint64) *Term {
	if x.Hi <= hi {
		return x
	}
	h := tb.BV(x.W, hi)
	t := tb.Ite(tb.ULe(x, h), x, h)
	if t.Op == OpIte && t.Hi > hi {
		t.Hi = hi
		if t.Lo > hi {
			t.Lo = hi
		}
	}
	return t
}

func (t *Term) IsConst() bool { return t.Op == OpConst }
func (t *Term) IsTrue() bool  { return t.Op == OpConst && t.W == 0 && t.K == 1 }
func (t *Term) IsFalse() bool { return t.Op == OpConst && t.W == 0 && t.K == 0 }

// SVal returns the constant as a signed value.
func (t *Term) SVal() int64 {
	if t.W >= 64 {
		return int64(t.K)
	}
	if t.K&(uint64(1)<<uint(t.W-1)) != 0 {
		return int64(t.K | ^mask(t.W))
	}
	return int64(t.K)
}

func (tb *TB) Not(a *Term) *Term {
	if a.W != 0 {
		panic("Not on non-bool")
	}
	if a.IsConst() {
		return tb.Bool(a.K == 0)
	}
	if a.Op == OpNot {
		return a.A
	}
	return tb.mk(&Term{Op: OpNot, A: a})
}

// conjuncts collects up to limit conjuncts of t into set.
func conjuncts(t *Term, set map[int]bool, limit *int) {
	if *limit <= 0 {
		return
	}
	if t.Op == OpAnd {
		conjuncts(t.A, set, limit)
		conjuncts(t.B, set, limit)
		return
	}
	*limit--
	set[t.ID] = true
}

func disjuncts(t *Term, set map[int]bool, limit *int) {
	if *limit <= 0 {
		return
	}
	if t.Op == OpOr {
		disjuncts(t.A, set, limit)
		disjuncts(t.B, set, limit)
		return
	}
	*limit--
	set[t.ID] = true
}

func (tb *TB) And(a, b *Term) *Term {
	if a.IsConst() {
		if a.K == 1 {
			return b
		}
		return tb.False
	}
	if b.IsConst() {
		if b.K == 1 {
			return a
		}
		return tb.False
	}
	if a == b {
		return a
	}
	if (a.Op == OpNot && a.A == b) || (b.Op == OpNot && b.A == a) {
		return tb.False
	}
	// complement / absorption detection against the conjuncts of the other side
	if a.Op == OpAnd || b.Op == OpAnd {
		set := map[int]bool{}
		lim := 64
		conjuncts(a, set, &lim)
		if b.Op != OpAnd {
			if set[b.ID] {
				return a
			}
			if nb := tb.peekNot(b); nb != nil && set[nb.ID] {
				return tb.False
			}
		} else {
			setb := map[int]bool{}
			lim2 := 64
			conjuncts(b, setb, &lim2)
			for idb := range setb {
				_ = idb
			}
			// check complements between sets
			for _, t := range tb.listConj(b, 64) {
				if nb := tb.peekNot(t); nb != nil && set[nb.ID] {
					return tb.False
				}
			}
			if a.Op != OpAnd && setb[a.ID] {
				return b
			}
		}
	}
	if a.ID > b.ID {
		a, b = b, a
	}
	return tb.mk(&Term{Op: OpAnd, A: a, B: b})
}

func (tb *TB) listConj(t *Term, limit int) []*Term {
	var out []*Term
	var rec func(t *Term)
	rec = func(t *Term) {
		if len(out) >= limit {
			return
		}
		if t.Op == OpAnd {
			rec(t.A)
			rec(t.B)
			return
		}
		out = append(out, t)
	}
	rec(t)
	return out
}

// peekNot returns the existing negation of t if it has been built (or t.A for a Not), else nil.
func (tb *TB) peekNot(t *Term) *Term {
	if t.Op == OpNot {
		return t.A
	}
	k := termKey{OpNot, 0, t.ID, -1, -1, 0, ""}
	if e, ok := tb.tab[k]; ok {
		return e
	}
	return nil
}

func (tb *TB) Or(a, b *Term) *Term {
	if a.IsConst() {
		if a.K == 0 {
			return b
		}
		return tb.True
	}
	if b.IsConst() {
		if b.K == 0 {
			return a
		}
		return tb.True
	}
	if a == b {
		return a
	}
	if (a.Op == OpNot && a.A == b) || (b.Op == OpNot && b.A == a) {
		return tb.True
	}
	// (x & y) | (x & !y) = x  (typical join of the two arms of a branch)
	if a.Op == OpAnd && b.Op == OpAnd {
		if r := tb.orFactor(a, b); r != nil {
			return r
		}
	}
	if a.Op == OpOr || b.Op == OpOr {
		set := map[int]bool{}
		lim := 64
		disjuncts(a, set, &lim)
		if b.Op != OpOr {
			if set[b.ID] {
				return a
			}
			if nb := tb.peekNot(b); nb != nil && set[nb.ID] {
				return tb.True
			}
		}
	}
	if a.ID > b.ID {
		a, b = b, a
	}
	return tb.mk(&Term{Op: OpOr, A: a, B: b})
}

// orFactor: (p & q) | (p & !q) -> p, for binary Ands sharing one operand.
func (tb *TB) orFactor(a, b *Term) *Term {
	try := func(p, q, r, s *Term) *Term {
		// a = p&q, b = r&s ; if p==r and q == !s -> p
		if p == r {
			if (q.Op == OpNot && q.A == s) || (s.Op == OpNot && s.A == q) {
				return p
			}
		}
		return nil
	}
	for _, x := range [][4]*Term{{a.A, a.B, b.A, b.B}, {a.A, a.B, b.B, b.A}, {a.B, a.A, b.A, b.B}, {a.B, a.A, b.B, b.A}} {
		if r := try(x[0], x[1], x[2], x[3]); r != nil {
			return r
		}
	}
	// general: conjunct lists differing in exactly one complemented literal
	la, lb := tb.listConj(a, 32), tb.listConj(b, 32)
	if len(la) == len(lb) && len(la) < 32 {
		sa := map[int]bool{}
		for _, t := range la {
			sa[t.ID] = true
		}
		var diffB []*Term
		for _, t := range lb {
			if !sa[t.ID] {
				diffB = append(diffB, t)
			}
		}
		if len(diffB) == 1 {
			sb := map[int]bool{}
			for _, t := range lb {
				sb[t.ID] = true
			}
			var diffA []*Term
			for _, t := range la {
				if !sb[t.ID] {
					diffA = append(diffA, t)
				}
			}
			if len(diffA) == 1 {
				x, y := diffA[0], diffB[0]
				if (x.Op == OpNot && x.A == y) || (y.Op == OpNot && y.A == x) {
					r := tb.True
					for _, t := range la {
						if t != x {
							r = tb.And(r, t)
						}
					}
					return r
				}
			}
		}
	}
	return nil
}

func (tb *TB) Implies(a, b *Term) *Term { return tb.Or(tb.Not(a), b) }

func (tb *TB) Ite(c, a, b *Term) *Term {
	if c.IsConst() {
		if c.K == 1 {
			return a
		}
		return b
	}
	if a == b {
		return a
	}
	if a.W != b.W {
		panic(fmt.Sprintf("Ite width mismatch %d vs %d", a.W, b.W))
	}
	if a.W == 0 {
		if a.IsConst() && b.IsConst() {
			if a.K == 1 {
				return c
			}
			return tb.Not(c)
		}
		if a.IsConst() {
			if a.K == 1 {
				return tb.Or(c, b)
			}
			return tb.And(tb.Not(c), b)
		}
		if b.IsConst() {
			if b.K == 1 {
				return tb.Or(tb.Not(c), a)
			}
			return tb.And(c, a)
		}
	}
	if c.Op == OpNot {
		return tb.Ite(c.A, b, a)
	}
	if a.Op == OpIte && a.A == c {
		a = a.B
	}
	if b.Op == OpIte && b.A == c {
		b = b.C
	}
	if a == b {
		return a
	}
	// ite(c, x, ite(d, x, y)) -> ite(c|d, x, y)
	if b.Op == OpIte && b.B == a {
		return tb.Ite(tb.Or(c, b.A), a, b.C)
	}
	return tb.mk(&Term{Op: OpIte, W: a.W, A: c, B: a, C: b})
}

func (tb *TB) Eq(a, b *Term) *Term {
	if a.W != b.W {
		panic(fmt.Sprintf("Eq width mismatch %d vs %d (%s, %s)", a.W, b.W, tb.Show(a), tb.Show(b)))
	}
	if a == b {
		return tb.True
	}
	if a.IsConst() && b.IsConst() {
		return tb.Bool(a.K == b.K)
	}
	if a.W == 0 {
		if a.IsConst() {
			if a.K == 1 {
				return b
			}
			return tb.Not(b)
		}
		if b.IsConst() {
			if b.K == 1 {
				return a
			}
			return tb.Not(a)
		}
	} else {
		if a.Hi < b.Lo || b.Hi < a.Lo {
			return tb.False
		}
	}
	if a.IsConst() {
		a, b = b, a
	}
	// push equality with a constant through ite-of-constants
	if b.IsConst() && a.Op == OpIte {
		if r := tb.eqIteConst(a, b, 12); r != nil {
			return r
		}
	}
	if b.IsConst() && a.Op == OpZExt {
		if b.K > mask(a.A.W) {
			return tb.False
		}
		return tb.Eq(a.A, tb.BV(a.A.W, b.K))
	}
	if a.ID > b.ID {
		a, b = b, a
	}
	return tb.mk(&Term{Op: OpEq, A: a, B: b})
}

func (tb *TB) eqIteConst(a, k *Term, depth int) *Term {
	if depth == 0 {
		return nil
	}
	if a.IsConst() {
		return tb.Bool(a.K == k.K)
	}
	if a.Op != OpIte {
		if a.Hi < k.K || k.K < a.Lo {
			return tb.False
		}
		return nil
	}
	l := tb.eqIteConst(a.B, k, depth-1)
	r := tb.eqIteConst(a.C, k, depth-1)
	if l == nil && r == nil {
		return nil
	}
	if l == nil {
		if !r.IsConst() {
			return nil
		}
		l = tb.mkEq(a.B, k)
	}
	if r == nil {
		if !l.IsConst() {
			return nil
		}
		r = tb.mkEq(a.C, k)
	}
	return tb.Ite(a.A, l, r)
}

func (tb *TB) mkEq(a, b *Term) *Term {
	if a.ID > b.ID {
		a, b = b, a
	}
	return tb.mk(&Term{Op: OpEq, A: a, B: b})
}

func (tb *TB) bin(op Op, a, b *Term) *Term {
	if a.W != b.W || a.W == 0 {
		panic(fmt.Sprintf("bv binop %d width mismatch %d vs %d", op, a.W, b.W))
	}
	w := a.W
	m := mask(w)
	if a.IsConst() && b.IsConst() {
		x, y := a.K, b.K
		switch op {
		case OpAdd:
			return tb.BV(w, x+y)
		case OpSub:
			return tb.BV(w, x-y)
		case OpMul:
			return tb.BV(w, x*y)
		case OpUDiv:
			if y == 0 {
				return tb.BV(w, m)
			}
			return tb.BV(w, x/y)
		case OpURem:
			if y == 0 {
				return tb.BV(w, x)
			}
			return tb.BV(w, x%y)
		case OpSDiv:
			sx, sy := a.SVal(), b.SVal()
			if sy == 0 {
				if sx >= 0 {
					return tb.BV(w, m)
				}
				return tb.BV(w, 1)
			}
			if sx == -1<<63 && sy == -1 {
				return tb.BV(w, uint64(sx))
			}
			return tb.BV(w, uint64(sx/sy))
		case OpSRem:
			sx, sy := a.SVal(), b.SVal()
			if sy == 0 {
				return tb.BV(w, x)
			}
			if sy == -1 {
				return tb.BV(w, 0)
			}
			return tb.BV(w, uint64(sx%sy))
		case OpBAnd:
			return tb.BV(w, x&y)
		case OpBOr:
			return tb.BV(w, x|y)
		case OpBXor:
			return tb.BV(w, x^y)
		case OpShl:
			if y >= uint64(w) {
				return tb.BV(w, 0)
			}
			return tb.BV(w, x<<y)
		case OpLShr:
			if y >= uint64(w) {
				return tb.BV(w, 0)
			}
			return tb.BV(w, x>>y)
		case OpAShr:
			sx := a.SVal()
			if y >= uint64(w) {
				y = uint64(w - 1)
			}
			return tb.BV(w, uint64(sx>>y))
		}
	}
	// arithmetic with a constant distributes over small ite-of-constants trees
	if b.IsConst() && a.Op == OpIte && (op == OpURem || op == OpSRem || op == OpUDiv || op == OpMul || op == OpSub || op == OpBAnd) {
		bb := b
		if r := tb.mapIteConst(a, func(k uint64) uint64 {
			return tb.bin(op, tb.BV(w, k), bb).K
		}, 8); r != nil {
			return r
		}
	}
	switch op {
	case OpAdd:
		if a.IsConst() && a.K == 0 {
			return b
		}
		if b.IsConst() && b.K == 0 {
			return a
		}
		// (x + c1) + c2
		if b.IsConst() && a.Op == OpAdd && a.B.IsConst() {
			return tb.bin(OpAdd, a.A, tb.BV(w, a.B.K+b.K))
		}
		if a.IsConst() {
			a, b = b, a
		}
		// ite distribution for small ite-of-const trees
		if b.IsConst() && a.Op == OpIte {
			if r := tb.mapIteConst(a, func(k uint64) uint64 { return k + b.K }, 8); r != nil {
				return r
			}
		}
	case OpSub:
		if b.IsConst() && b.K == 0 {
			return a
		}
		if a == b {
			return tb.BV(w, 0)
		}
		if b.IsConst() {
			return tb.bin(OpAdd, a, tb.BV(w, -b.K))
		}
		// (x + y) - x = y
		if a.Op == OpAdd {
			if a.A == b {
				return a.B
			}
			if a.B == b {
				return a.A
			}
		}
	case OpMul:
		if a.IsConst() {
			a, b = b, a
		}
		if b.IsConst() {
			if b.K == 0 {
				return b
			}
			if b.K == 1 {
				return a
			}
		}
	case OpBAnd:
		if a.IsConst() {
			a, b = b, a
		}
		if b.IsConst() {
			if b.K == 0 {
				return b
			}
			if b.K == m {
				return a
			}
		}
		if a == b {
			return a
		}
	case OpBOr, OpBXor:
		if a.IsConst() {
			a, b = b, a
		}
		if b.IsConst() && b.K == 0 {
			return a
		}
	case OpShl, OpLShr, OpAShr:
		if b.IsConst() && b.K == 0 {
			return a
		}
	}
	if (op == OpAdd || op == OpMul || op == OpBAnd || op == OpBOr || op == OpBXor) && a.ID > b.ID && !b.IsConst() {
		a, b = b, a
	}
	return tb.mk(&Term{Op: op, W: w, A: a, B: b})
}

// mapIteConst applies f to the leaves of an ite tree whose leaves are all constants.
func (tb *TB) mapIteConst(a *Term, f func(uint64) uint64, depth int) *Term {
	if a.IsConst() {
		return tb.BV(a.W, f(a.K))
	}
	if a.Op != OpIte || depth == 0 {
		return nil
	}
	l := tb.mapIteConst(a.B, f, depth-1)
	if l == nil {
		return nil
	}
	r := tb.mapIteConst(a.C, f, depth-1)
	if r == nil {
		return nil
	}
	return tb.Ite(a.A, l, r)
}

func (tb *TB) Add(a, b *Term) *Term  { return tb.bin(OpAdd, a, b) }
func (tb *TB) Sub(a, b *Term) *Term  { return tb.bin(OpSub, a, b) }
func (tb *TB) Mul(a, b *Term) *Term  { return tb.bin(OpMul, a, b) }
func (tb *TB) UDiv(a, b *Term) *Term { return tb.bin(OpUDiv, a, b) }
func (tb *TB) URem(a, b *Term) *Term { return tb.bin(OpURem, a, b) }
func (tb *TB) SDiv(a, b *Term) *Term { return tb.bin(OpSDiv, a, b) }
func (tb *TB) SRem(a, b *Term) *Term { return tb.bin(OpSRem, a, b) }
func (tb *TB) BAnd(a, b *Term) *Term { return tb.bin(OpBAnd, a, b) }
func (tb *TB) BOr(a, b *Term) *Term  { return tb.bin(OpBOr, a, b) }
func (tb *TB) BXor(a, b *Term) *Term { return tb.bin(OpBXor, a, b) }
func (tb *TB) Shl(a, b *Term) *Term  { return tb.bin(OpShl, a, b) }
func (tb *TB) LShr(a, b *Term) *Term { return tb.bin(OpLShr, a, b) }
func (tb *TB) AShr(a, b *Term) *Term { return tb.bin(OpAShr, a, b) }

func (tb *TB) BNot(a *Term) *Term {
	if a.IsConst() {
		return tb.BV(a.W, ^a.K)
	}
	return tb.mk(&Term{Op: OpBNot, W: a.W, A: a})
}

func (tb *TB) Neg(a *Term) *Term {
	if a.IsConst() {
		return tb.BV(a.W, -a.K)
	}
	return tb.mk(&Term{Op: OpNeg, W: a.W, A: a})
}

func signedSafe(t *Term) bool { return t.Hi < (uint64(1) << uint(t.W-1)) }

func (tb *TB) cmp(op Op, a, b *Term) *Term {
	if a.W != b.W || a.W == 0 {
		panic(fmt.Sprintf("bv cmp width mismatch %d vs %d: %s ; %s", a.W, b.W, tb.Show(a), tb.Show(b)))
	}
	if a.IsConst() && b.IsConst() {
		switch op {
		case OpULt:
			return tb.Bool(a.K < b.K)
		case OpULe:
			return tb.Bool(a.K <= b.K)
		case OpSLt:
			return tb.Bool(a.SVal() < b.SVal())
		case OpSLe:
			return tb.Bool(a.SVal() <= b.SVal())
		}
	}
	if a == b {
		return tb.Bool(op == OpULe || op == OpSLe)
	}
	// signed comparisons on values known non-negative are unsigned comparisons
	if (op == OpSLt || op == OpSLe) && signedSafe(a) && signedSafe(b) {
		if op == OpSLt {
			op = OpULt
		} else {
			op = OpULe
		}
	}
	switch op {
	case OpULt:
		if a.Hi < b.Lo {
			return tb.True
		}
		if a.Lo >= b.Hi {
			return tb.False
		}
	case OpULe:
		if a.Hi <= b.Lo {
			return tb.True
		}
		if a.Lo > b.Hi {
			return tb.False
		}
	}
	// a <= b  ==  !(b < a): keep only Lt forms so that complements are detected syntactically
	if op == OpULe {
		return tb.Not(tb.cmp(OpULt, b, a))
	}
	if op == OpSLe {
		return tb.Not(tb.cmp(OpSLt, b, a))
	}
	// comparisons of ite-of-constants with a constant
	if b.IsConst() && a.Op == OpIte {
		if r := tb.cmpIteConst(op, a, b, true, 10); r != nil {
			return r
		}
	}
	if a.IsConst() && b.Op == OpIte {
		if r := tb.cmpIteConst(op, b, a, false, 10); r != nil {
			return r
		}
	}
	if op == OpULt && a.Op == OpZExt && b.Op == OpZExt && a.A.W == b.A.W {
		return tb.cmp(OpULt, a.A, b.A)
	}
	return tb.mk(&Term{Op: op, A: a, B: b})
}

func (tb *TB) cmpIteConst(op Op, a, k *Term, iteLeft bool, depth int) *Term {
	if a.IsConst() {
		if iteLeft {
			return tb.cmp(op, a, k)
		}
		return tb.cmp(op, k, a)
	}
	if a.Op != OpIte || depth == 0 {
		return nil
	}
	l := tb.cmpIteConst(op, a.B, k, iteLeft, depth-1)
	if l == nil {
		return nil
	}
	r := tb.cmpIteConst(op, a.C, k, iteLeft, depth-1)
	if r == nil {
		return nil
	}
	return tb.Ite(a.A, l, r)
}

func (tb *TB) ULt(a, b *Term) *Term { return tb.cmp(OpULt, a, b) }
func (tb *TB) ULe(a, b *Term) *Term { return tb.cmp(OpULe, a, b) }
func (tb *TB) SLt(a, b *Term) *Term { return tb.cmp(OpSLt, a, b) }
func (tb *TB) SLe(a, b *Term) *Term { return tb.cmp(OpSLe, a, b) }

func (tb *TB) Extract(a *Term, hi, lo int) *Term {
	if hi == a.W-1 && lo == 0 {
		return a
	}
	if a.IsConst() {
		return tb.BV(hi-lo+1, a.K>>uint(lo))
	}
	if (a.Op == OpZExt || a.Op == OpSExt) && lo == 0 {
		if hi == a.A.W-1 {
			return a.A
		}
		if hi < a.A.W-1 {
			return tb.Extract(a.A, hi, lo)
		}
		if a.Op == OpZExt {
			return tb.ZExt(a.A, hi+1)
		}
		return tb.SExt(a.A, hi+1)
	}
	if a.Op == OpIte && a.B.IsConst() && a.C.IsConst() {
		return tb.Ite(a.A, tb.Extract(a.B, hi, lo), tb.Extract(a.C, hi, lo))
	}
	return tb.mk(&Term{Op: OpExtract, W: hi - lo + 1, A: a, K: uint64(hi)<<16 | uint64(lo)})
}

// ZExt zero-extends a to width w.
func (tb *TB) ZExt(a *Term, w int) *Term {
	if a.W == w {
		return a
	}
	if a.W > w {
		return tb.Extract(a, w-1, 0)
	}
	if a.IsConst() {
		return tb.BV(w, a.K)
	}
	if a.Op == OpZExt {
		return tb.ZExt(a.A, w)
	}
	if a.Op == OpIte && (a.B.IsConst() || a.C.IsConst()) {
		return tb.Ite(a.A, tb.ZExt(a.B, w), tb.ZExt(a.C, w))
	}
	return tb.mk(&Term{Op: OpZExt, W: w, A: a, K: uint64(w - a.W)})
}

func (tb *TB) SExt(a *Term, w int) *Term {
	if a.W == w {
		return a
	}
	if a.W > w {
		return tb.Extract(a, w-1, 0)
	}
	if a.IsConst() {
		return tb.BV(w, uint64(a.SVal()))
	}
	if signedSafe(a) {
		return tb.ZExt(a, w)
	}
	return tb.mk(&Term{Op: OpSExt, W: w, A: a, K: uint64(w - a.W)})
}

func (tb *TB) Concat(a, b *Term) *Term {
	if a.IsConst() && b.IsConst() && a.W+b.W <= 64 {
		return tb.BV(a.W+b.W, a.K<<uint(b.W)|b.K)
	}
	return tb.mk(&Term{Op: OpConcat, W: a.W + b.W, A: a, B: b})
}

func (tb *TB) AndN(ts ...*Term) *Term {
	r := tb.True
	for _, t := range ts {
		r = tb.And(r, t)
	}
	return r
}

func (tb *TB) OrN(ts ...*Term) *Term {
	r := tb.False
	for _, t := range ts {
		r = tb.Or(r, t)
	}
	return r
}

// Show renders a term for diagnostics (bounded depth).
var showDepth = 4

func (tb *TB) Show(t *Term) string {
	var sb strings.Builder
	var rec func(t *Term, d int)
	rec = func(t *Term, d int) {
		if t == nil {
			sb.WriteString("<nil>")
			return
		}
		switch t.Op {
		case OpConst:
			if t.W == 0 {
				fmt.Fprintf(&sb, "%v", t.K == 1)
			} else {
				fmt.Fprintf(&sb, "%d:%d", t.SVal(), t.W)
			}
			return
		case OpVar:
			sb.WriteString(t.Name)
			return
		}
		if d == 0 {
			fmt.Fprintf(&sb, "t%d", t.ID)
			return
		}
		name := opNames[t.Op]
		if name == "" {
			name = fmt.Sprintf("op%d", t.Op)
		}
		sb.WriteString("(" + name)
		for _, x := range []*Term{t.A, t.B, t.C} {
			if x != nil {
				sb.WriteString(" ")
				rec(x, d-1)
			}
		}
		sb.WriteString(")")
	}
	rec(t, showDepth)
	return sb.String()
}
