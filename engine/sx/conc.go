package sx

import (
	"go/types"

	"golang.org/x/tools/go/ssa"
)

// Concurrency support. Policy "run to block": the current thread runs until it blocks or ends,
// then the lowest-numbered runnable thread continues. With cfg.SchedVars the choice of the next
// thread at each switch point is a symbolic variable (fork per choice, states re-merge by shape).

func (x *Exec) makeChan(s *State, capacity int, et types.Type) Value {
	tb := x.tb
	c := &ChanObj{Cap: capacity, ET: et, Len: tb.Int64(0), Closed: tb.False, ParkedG: tb.False, Taken: tb.False}
	z := x.zero(et)
	c.Buf = make([]Value, capacity)
	for i := range c.Buf {
		c.Buf[i] = z
	}
	id := x.newObj(c, s)
	return x.ptrTo(id)
}

func (x *Exec) chanOf(s *State, p *PtrVal) (*ChanObj, int) {
	var live []PtrAlt
	for _, a := range p.Alts {
		if a.Obj != 0 && !a.G.IsFalse() {
			live = append(live, a)
		}
	}
	if len(live) != 1 {
		x.fail("channel value with %d live alternatives", len(live))
	}
	c, ok := s.Heap[live[0].Obj].(*ChanObj)
	if !ok {
		x.fail("channel pointer to %T", s.Heap[live[0].Obj])
	}
	return c, live[0].Obj
}

func (x *Exec) chanClose(s *State, p *PtrVal) bool {
	tb := x.tb
	if !x.panicIf(s, x.ptrIsNil(p), "close of nil channel") {
		return false
	}
	c, id := x.chanOf(s, p)
	if !x.panicIf(s, c.Closed, "close of closed channel") {
		return false
	}
	n := *c
	n.Closed = tb.True
	s.Heap[id] = &n
	x.wake(s, id)
	return true
}

// wake makes threads blocked on object id runnable again.
func (x *Exec) wake(s *State, id int) {
	for _, t := range s.Threads {
		if t.Blocked != nil && (t.Blocked.Obj == id || t.Blocked.Kind == "select") {
			t.Blocked = nil
		}
	}
}

func (x *Exec) doGo(s *State, f *Frame, in *ssa.Go) bool {
	sp := x.evalCall(s, f, &in.Call)
	f.PC++
	x.NGo++
	nt := &Thread{ID: len(s.Threads)}
	s.Threads = append(s.Threads, nt)
	cur := s.Cur
	s.Cur = nt.ID
	// start the new thread's first frame (it does not run until scheduled)
	ok := x.invokeGo(s, sp)
	s.Cur = cur
	if !ok {
		return false
	}
	return true
}

// invokeGo pushes the first frame of a new thread.
func (x *Exec) invokeGo(s *State, sp callSpec) bool {
	if sp.Builtin != "" {
		x.fail("go with builtin %s", sp.Builtin)
	}
	var fn *ssa.Function
	var args, bind []Value
	if sp.Recv != nil {
		var live []IfaceAlt
		for _, a := range sp.Recv.Alts {
			if a.T != nil && !a.G.IsFalse() {
				live = append(live, a)
			}
		}
		if len(live) != 1 {
			x.fail("go on interface method with %d dynamic types", len(live))
		}
		fn = x.Prog.LookupMethod(live[0].T, sp.Method.Pkg(), sp.Method.Name())
		args = append([]Value{live[0].V}, sp.Args...)
	} else {
		var live []FuncAlt
		for _, a := range sp.Fn.Alts {
			if a.Fn != nil && !a.G.IsFalse() {
				live = append(live, a)
			}
		}
		if len(live) != 1 {
			x.fail("go on function value with %d targets", len(live))
		}
		fn, args, bind = live[0].Fn, sp.Args, live[0].Bindings
	}
	name := FuncName(fn)
	if m, ok := x.Redirects[name]; ok {
		fn = m
	}
	if _, ok := intrinsics[name]; ok {
		x.fail("go on intrinsic %s", name)
	}
	if x.isStubPkg(fnPkgPath(fn)) {
		// goroutine running stub code: nothing to do
		t := s.thread()
		t.Done = true
		return true
	}
	x.pushFrame(s, fn, args, bind, nil)
	return true
}

// schedule is called when the current thread can no longer run (blocked or done). It picks the
// next runnable thread; if none is runnable and some thread is unfinished that is a deadlock
// obligation; if all are done the state ends.
func (x *Exec) schedule(s *State) {
	// run-to-block: lowest-numbered runnable thread other than the current one first
	n := len(s.Threads)
	for d := 1; d <= n; d++ {
		i := (s.Cur + d) % n
		t := s.Threads[i]
		if !t.Done && t.Blocked == nil {
			s.Cur = i
			x.push(s)
			return
		}
	}
	// only quiescing threads left runnable: they resume
	main := s.Threads[0]
	if main.Done {
		// helper goroutines blocked forever after main has finished: harness end
		x.finalStates = append(x.finalStates, s)
		return
	}
	x.oblige(s, "deadlock", "all goroutines blocked", s.G)
}

// block suspends the current thread on obj and schedules another one. The blocking instruction
// will be re-executed when the thread is woken.
func (x *Exec) block(s *State, kind string, obj int) {
	s.thread().Blocked = &BlockInfo{Kind: kind, Obj: obj}
	x.schedule(s)
}

// yieldTo lets other runnable threads run before the current thread continues (used after
// operations that enable a waiting thread, so that hand-overs complete promptly).
func (x *Exec) doSend(s *State, f *Frame, in *ssa.Send) bool {
	p := x.val(s, f, in.Chan).(*PtrVal)
	v := x.val(s, f, in.X)
	return x.chanSend(s, f, p, v, true)
}

// maybePreempt forks the schedule at a visible operation: besides letting the current thread go on,
// each other runnable thread may run first (consuming one unit of the pre-emption budget). The
// alternative states are queued; the caller continues with s (no pre-emption).
func (x *Exec) maybePreempt(s *State) {
	t := s.thread()
	if t.NoPreempt {
		t.NoPreempt = false
		return
	}
	if s.Preempt <= 0 {
		return
	}
	for i, o := range s.Threads {
		if i == s.Cur || o.Done || o.Blocked != nil || o.Quiescing {
			continue
		}
		ns := s.clone()
		ns.Preempt--
		ns.thread().NoPreempt = true
		ns.Cur = i
		x.push(ns)
	}
}

// maybePreemptFree is maybePreempt without budget (explicit Yield).
func (x *Exec) maybePreemptFree(s *State) {
	t := s.thread()
	if t.NoPreempt {
		t.NoPreempt = false
		return
	}
	for i, o := range s.Threads {
		if i == s.Cur || o.Done || o.Blocked != nil || o.Quiescing {
			continue
		}
		ns := s.clone()
		ns.thread().NoPreempt = true
		ns.Cur = i
		x.push(ns)
	}
}

// chanSend: returns true if the send completed and the thread continues (pc advanced when adv).
func (x *Exec) chanSend(s *State, f *Frame, p *PtrVal, v Value, adv bool) bool {
	tb := x.tb
	x.maybePreempt(s)
	if nl := x.ptrIsNil(p); nl.IsTrue() {
		x.block(s, "send", 0)
		return false
	}
	c, id := x.chanOf(s, p)
	if !x.panicIf(s, c.Closed, "send on closed channel") {
		return false
	}
	if c.Cap > 0 {
		full := tb.Not(tb.ULt(c.Len, tb.Int64(int64(c.Cap))))
		if full.IsTrue() {
			x.block(s, "send", id)
			return false
		}
		if !full.IsFalse() {
			// fork: blocked part / proceeding part
			bs := s.clone()
			if x.constrain(bs, full) {
				x.block(bs, "send", id)
			}
			x.constrain(s, tb.Not(full))
		}
		n := *c
		n.Buf = make([]Value, c.Cap)
		copy(n.Buf, c.Buf)
		for i := 0; i < c.Cap; i++ {
			if uint64(i) < c.Len.Lo || uint64(i) > c.Len.Hi {
				continue
			}
			n.Buf[i] = x.ite(tb.Eq(c.Len, tb.Int64(int64(i))), v, c.Buf[i])
		}
		n.Len = tb.Add(c.Len, tb.Int64(1))
		s.Heap[id] = &n
		x.wake(s, id)
		if adv {
			f.PC++
		}
		return true
	}
	// unbuffered: two-phase. Phase 1: park the value and block; a receiver takes it and sets Taken.
	t := s.thread()
	if c.Parked != nil && c.ParkedG.IsTrue() && c.Senders == t.ID+1 {
		if c.Taken.IsTrue() {
			n := *c
			n.Parked = nil
			n.ParkedG = tb.False
			n.Taken = tb.False
			n.Senders = 0
			s.Heap[id] = &n
			x.wake(s, id)
			if adv {
				f.PC++
			}
			return true
		}
		x.block(s, "send", id)
		return false
	}
	if c.Parked != nil && c.ParkedG.IsTrue() {
		// another sender is parked: wait
		x.block(s, "send", id)
		return false
	}
	n := *c
	n.Parked = v
	n.ParkedG = tb.True
	n.Taken = tb.False
	n.Senders = t.ID + 1
	s.Heap[id] = &n
	x.wake(s, id)
	x.block(s, "send", id)
	return false
}

// chanRecv attempts a receive; returns (value, ok, completed).
func (x *Exec) chanRecv(s *State, p *PtrVal, et types.Type) (Value, *Term, bool) {
	tb := x.tb
	if nl := x.ptrIsNil(p); nl.IsTrue() {
		x.block(s, "recv", 0)
		return nil, nil, false
	}
	c, id := x.chanOf(s, p)
	z := x.zero(c.ET)
	if c.Timer {
		// waiting on a timer alone: time passes until it fires
		n := *c
		n.Len = tb.Int64(1)
		c = &n
		s.Heap[id] = c
	}
	if c.Cap > 0 {
		empty := tb.Eq(c.Len, tb.Int64(0))
		canRecv := tb.Or(tb.Not(empty), c.Closed)
		if canRecv.IsFalse() {
			x.block(s, "recv", id)
			return nil, nil, false
		}
		if !canRecv.IsTrue() {
			bs := s.clone()
			if x.constrain(bs, tb.Not(canRecv)) {
				x.block(bs, "recv", id)
			}
			x.constrain(s, canRecv)
		}
		v := x.ite(empty, z, c.Buf[0])
		n := *c
		n.Buf = make([]Value, c.Cap)
		for i := 0; i < c.Cap; i++ {
			if i+1 < c.Cap {
				n.Buf[i] = x.ite(empty, c.Buf[i], c.Buf[i+1])
			} else {
				n.Buf[i] = x.ite(empty, c.Buf[i], z)
			}
		}
		n.Len = tb.Ite(empty, c.Len, tb.Sub(c.Len, tb.Int64(1)))
		s.Heap[id] = &n
		x.wake(s, id)
		return v, tb.Not(empty), true
	}
	// unbuffered
	if c.Parked != nil && c.ParkedG.IsTrue() && !c.Taken.IsTrue() {
		n := *c
		n.Taken = tb.True
		s.Heap[id] = &n
		x.wake(s, id)
		return c.Parked, tb.True, true
	}
	if c.Closed.IsTrue() {
		return z, tb.False, true
	}
	if !c.Closed.IsFalse() {
		// closed on some of the merged paths only: the open part blocks, the closed part proceeds
		bs := s.clone()
		if x.constrain(bs, tb.Not(c.Closed)) {
			x.block(bs, "recv", id)
		}
		if !x.constrain(s, c.Closed) {
			return nil, nil, false
		}
		return z, tb.False, true
	}
	x.block(s, "recv", id)
	return nil, nil, false
}

// doRecv executes a channel receive instruction (UnOp ARROW).
func (x *Exec) doRecv(s *State, f *Frame, in *ssa.UnOp) bool {
	p := x.val(s, f, in.X).(*PtrVal)
	ct := in.X.Type().Underlying().(*types.Chan)
	v, ok, done := x.chanRecv(s, p, ct.Elem())
	if !done {
		return false
	}
	if in.CommaOk {
		x.set(f, in, &TupleVal{E: []Value{v, ok}})
	} else {
		x.set(f, in, v)
	}
	f.PC++
	return true
}

// chanReady returns the condition under which a receive (dir recv) or send on the channel can
// proceed without blocking.
func (x *Exec) chanReady(s *State, p *PtrVal, recv bool) *Term {
	tb := x.tb
	if x.ptrIsNil(p).IsTrue() {
		return tb.False
	}
	c, _ := x.chanOf(s, p)
	if recv {
		if c.Cap > 0 {
			return tb.Or(tb.Not(tb.Eq(c.Len, tb.Int64(0))), c.Closed)
		}
		parked := tb.False
		if c.Parked != nil {
			parked = tb.And(c.ParkedG, tb.Not(c.Taken))
		}
		return tb.Or(parked, c.Closed)
	}
	if c.Cap > 0 {
		return tb.Or(tb.ULt(c.Len, tb.Int64(int64(c.Cap))), c.Closed)
	}
	// unbuffered send inside select: ready only if closed (panics); rendez-vous with a waiting
	// receiver is not modelled for select-sends
	return c.Closed
}

func (x *Exec) doSelect(s *State, f *Frame, in *ssa.Select) bool {
	tb := x.tb
	n := len(in.States)
	ready := make([]*Term, n)
	chans := make([]*PtrVal, n)
	for i, st := range in.States {
		chans[i] = x.val(s, f, st.Chan).(*PtrVal)
		ready[i] = x.chanReady(s, chans[i], st.Dir == types.RecvOnly)
	}
	// result tuple layout: (index, recvOk, recv values...)
	tt := in.Type().(*types.Tuple)
	mkResult := func(idx int, okv *Term, fired int, val Value) Value {
		tv := &TupleVal{E: make([]Value, tt.Len())}
		tv.E[0] = tb.Int64(int64(idx))
		tv.E[1] = okv
		k := 2
		for i, st := range in.States {
			if st.Dir == types.RecvOnly {
				if i == fired {
					tv.E[k] = val
				} else {
					tv.E[k] = x.zero(tt.At(k).Type())
				}
				k++
			}
		}
		return tv
	}
	// deterministic priority: the first ready case fires; when several are ready with certainty a
	// fresh symbolic choice picks one (Go's select chooses pseudo-randomly)
	var certain []int
	for i := range ready {
		if ready[i].IsTrue() {
			certain = append(certain, i)
		}
	}
	fire := func(ns *State, nf *Frame, i int) {
		st := in.States[i]
		if st.Dir == types.RecvOnly {
			ct := st.Chan.Type().Underlying().(*types.Chan)
			v, okv, done := x.chanRecv(ns, chans[i], ct.Elem())
			if !done {
				return
			}
			x.set(nf, in, mkResult(i, okv, i, v))
			nf.PC++
			x.push(ns)
			return
		}
		v := x.val(ns, nf, st.Send)
		if x.chanSend(ns, nf, chans[i], v, false) {
			x.set(nf, in, mkResult(i, tb.False, -1, nil))
			nf.PC++
			x.push(ns)
		}
	}
	if len(certain) > 1 {
		ch := tb.Var(x.freshName("select"), 8)
		for k, i := range certain {
			ns := s.clone()
			var c *Term
			if k == len(certain)-1 {
				c = tb.Not(tb.ULt(ch, tb.BV(8, uint64(k))))
			} else {
				c = tb.Eq(ch, tb.BV(8, uint64(k)))
			}
			if x.constrain(ns, c) {
				fire(ns, ns.top(), i)
			}
		}
		s.dead = true
		return false
	}
	none := tb.True
	for i := range ready {
		c := tb.And(none, ready[i])
		none = tb.And(none, tb.Not(ready[i]))
		if c.IsFalse() {
			continue
		}
		ns := s.clone()
		if x.constrain(ns, c) {
			fire(ns, ns.top(), i)
		}
	}
	if !none.IsFalse() {
		ns := s
		if x.constrain(ns, none) {
			timer := -1
			for i, st := range in.States {
				if st.Dir == types.RecvOnly && !x.ptrIsNil(chans[i]).IsTrue() {
					if ch, _ := x.chanOf(ns, chans[i]); ch.Timer {
						timer = i
						break
					}
				}
			}
			switch {
			case !in.Blocking:
				x.set(f, in, mkResult(-1, tb.False, -1, nil))
				f.PC++
				x.push(ns)
			case timer >= 0:
				// time passes only when nothing else can proceed: the other runnable goroutines run
				// first (the select is re-evaluated afterwards), then the timer fires
				me := ns.thread()
				next := -1
				for i, t := range ns.Threads {
					if i != ns.Cur && !t.Done && t.Blocked == nil {
						// a goroutine that is itself only waiting for the others to settle
						// (Quiesce) still comes before the passing of time, but after the busy ones
						if !t.Quiescing {
							next = i
							break
						}
						if next < 0 {
							next = i
						}
					}
				}
				if next >= 0 {
					me.Quiescing = true
					ns.Cur = next
					x.push(ns)
					return false
				}
				me.Quiescing = false
				fire(ns, ns.top(), timer)
			default:
				x.block(ns, "select", 0)
			}
		}
	} else {
		s.dead = true
	}
	return false
}
