package sx

import (
	"crypto/sha1"
	"fmt"
	"go/types"
	"path/filepath"
	"strconv"
)

// Intrinsics used by the file-system model (harness/zzvrf/vfs.go) and the file store: path
// arithmetic and SHA-1 on concrete strings (mailbox names and storage paths are concrete in the
// file-store harnesses), and the value copy that stands for a gob encode/decode round trip.

func (x *Exec) mustConcreteStr(v Value, what string) string {
	s, ok := x.concreteStr(v.(*StrVal))
	if !ok {
		sv := v.(*StrVal)
		msg := ""
		for i, b := range sv.B {
			if !b.IsConst() && len(msg) < 600 {
				msg += fmt.Sprintf(" [%d]=%s", i, x.tb.Show(b))
			}
		}
		x.fail("%s: symbolic string not supported: %s%s", what, x.showVal(v), msg)
	}
	return s
}

// gobCopy deep-copies v (of static type t) the way gob transmits it: pointers are followed,
// unexported struct fields are dropped (zero), slices get fresh backing arrays. time.Time has its
// own binary encoding and is copied whole.
func (x *Exec) gobCopy(s *State, v Value, t types.Type) Value {
	if nt, ok := t.(*types.Named); ok {
		if nt.Obj().Pkg() != nil && nt.Obj().Pkg().Path() == "time" && nt.Obj().Name() == "Time" {
			return v
		}
	}
	switch ut := t.Underlying().(type) {
	case *types.Basic:
		return v
	case *types.Struct:
		sv := v.(*StructVal)
		out := &StructVal{F: make([]Value, len(sv.F))}
		for i := range sv.F {
			f := ut.Field(i)
			if f.Exported() {
				out.F[i] = x.gobCopy(s, sv.F[i], f.Type())
			} else {
				out.F[i] = x.zero(f.Type())
			}
		}
		return out
	case *types.Pointer:
		p := x.normPtr(v.(*PtrVal))
		out := &PtrVal{}
		for _, a := range p.Alts {
			if a.Obj == 0 {
				out.Alts = append(out.Alts, PtrAlt{G: a.G, Obj: 0})
				continue
			}
			ev, ok := x.load(s, &PtrVal{Alts: []PtrAlt{{G: x.tb.True, Obj: a.Obj, Path: a.Path}}}, ut.Elem())
			if !ok {
				return x.nilPtr()
			}
			id := x.newObj(x.gobCopy(s, ev, ut.Elem()), s)
			out.Alts = append(out.Alts, PtrAlt{G: a.G, Obj: id})
		}
		return out
	case *types.Slice:
		sl := v.(*SliceVal)
		if !sl.Len.IsConst() {
			x.fail("gob copy of a slice of symbolic length")
		}
		n := int(sl.Len.K)
		if n == 0 {
			return x.zero(t) // gob does not transmit empty slices: they decode as nil
		}
		el, _ := x.sliceElems(s, sl)
		arr := &ArrayVal{E: make([]Value, n)}
		for i := 0; i < n; i++ {
			arr.E[i] = x.gobCopy(s, el[i], ut.Elem())
		}
		id := x.newObj(arr, s)
		return &SliceVal{Ptr: x.ptrTo(id, 0), Len: x.tb.Int64(int64(n)), Cap: x.tb.Int64(int64(n))}
	}
	x.fail("gob copy of unsupported type %s", t)
	return nil
}

func singleAlt(x *Exec, iv *IfaceVal, what string) IfaceAlt {
	var live []IfaceAlt
	for _, a := range iv.Alts {
		if !a.G.IsFalse() {
			live = append(live, a)
		}
	}
	if len(live) != 1 || live[0].T == nil {
		x.fail("%s: interface value with %d dynamic types (or nil)", what, len(live))
	}
	return live[0]
}

func init() {
	RegisterIntrinsic("path/filepath.Join", func(x *Exec, s *State, c *CallCtx) Value {
		var parts []string
		for _, a := range x.variadicArgs(s, c.Args[0]) {
			parts = append(parts, x.mustConcreteStr(a, "filepath.Join"))
		}
		return x.str(filepath.Join(parts...))
	})
	for name, f := range map[string]func(string) string{"Dir": filepath.Dir, "Base": filepath.Base, "Clean": filepath.Clean} {
		f, name := f, name
		RegisterIntrinsic("path/filepath."+name, func(x *Exec, s *State, c *CallCtx) Value {
			return x.str(f(x.mustConcreteStr(c.Args[0], "filepath."+name)))
		})
	}
	RegisterIntrinsic("internal/bytealg.MakeNoZero", func(x *Exec, s *State, c *CallCtx) Value {
		n := c.Args[0].(*Term)
		v, ok := x.makeSlice(s, types.Typ[types.Byte], n, n)
		if !ok {
			return nil
		}
		return v
	})
	RegisterIntrinsic(VrfPkg+".SHA1", func(x *Exec, s *State, c *CallCtx) Value {
		in := x.mustConcreteStr(x.bytesToStr(s, c.Args[0]), "SHA1 input")
		sum := sha1.Sum([]byte(in))
		return x.strToBytes(s, x.str(string(sum[:])))
	})
	// GobCopy(v interface{}) interface{}: the transmitted value (a *T is sent as T)
	RegisterIntrinsic(VrfPkg+".GobCopy", func(x *Exec, s *State, c *CallCtx) Value {
		a := singleAlt(x, c.Args[0].(*IfaceVal), "GobCopy")
		t, v := a.T, a.V
		for {
			pt, ok := t.Underlying().(*types.Pointer)
			if !ok {
				break
			}
			p := x.normPtr(v.(*PtrVal))
			if len(p.Alts) != 1 || p.Alts[0].Obj == 0 {
				x.fail("GobCopy: nil or ambiguous pointer")
			}
			ev, ok := x.load(s, p, pt.Elem())
			if !ok {
				return nil
			}
			t, v = pt.Elem(), ev
		}
		return &IfaceVal{Alts: []IfaceAlt{{G: x.tb.True, T: t, V: x.gobCopy(s, v, t)}}}
	})
	// GobAssign(p interface{}, rec interface{}) bool
	RegisterIntrinsic(VrfPkg+".GobAssign", func(x *Exec, s *State, c *CallCtx) Value {
		pa := singleAlt(x, c.Args[0].(*IfaceVal), "GobAssign target")
		ra := singleAlt(x, c.Args[1].(*IfaceVal), "GobAssign value")
		pt, ok := pa.T.Underlying().(*types.Pointer)
		if !ok {
			x.fail("GobAssign: target is not a pointer")
		}
		if !types.Identical(pt.Elem(), ra.T) {
			return x.tb.False
		}
		p := pa.V.(*PtrVal)
		if st, ok := ra.T.Underlying().(*types.Struct); ok {
			cp := x.gobCopy(s, ra.V, ra.T).(*StructVal)
			for i := 0; i < st.NumFields(); i++ {
				if !st.Field(i).Exported() {
					continue
				}
				fa, ok := x.fieldAddr(s, p, i)
				if !ok {
					return nil
				}
				if !x.store(s, fa.(*PtrVal), cp.F[i]) {
					return nil
				}
			}
			return x.tb.True
		}
		if !x.store(s, p, x.gobCopy(s, ra.V, ra.T)) {
			return nil
		}
		return x.tb.True
	})
}

// parseIntConcrete evaluates strconv.ParseInt on a concrete string in any base.
func (x *Exec) parseIntConcrete(st *State, str string, base, bits int) Value {
	v, err := strconv.ParseInt(str, base, bits)
	if err != nil {
		return &TupleVal{E: []Value{x.tb.Int64(0), x.newError(st, x.str("strconv.ParseInt: parsing error"))}}
	}
	return &TupleVal{E: []Value{x.tb.Int64(v), x.zero(errorType)}}
}
