package main

func init() {
	register(Harness{
		Prop: "C09", Pkg: "storage/mem", Func: "VerifC09Race",
		Quick:    [][]int64{{0, 2}, {1, 2}},
		Thorough: [][]int64{{0, 3}, {1, 3}, {2, 3}},
		Unwind:   40,
		Desc:     "a delivery racing with the removal of that same message on mem.New (with and without the size enforcer goroutine): no panic in any goroutine, no deadlock, presence <=> not removed, store usable afterwards, ids not reused",
		Bounds:   "params (maxkb, pre-emption budget); schedules = run-to-block plus up to `pre` pre-emptions inserted before unbuffered channel sends and mutex acquisitions (context-bounded); 3 goroutines + enforcer",
		Assumes:  []string{"threads are atomic between visible operations (channel ops, mutex/waitgroup ops, go, Yield): data races below that granularity are not detected (no race detector)", "native replay of a schedule counterexample is by repetition (400 rounds); a counterexample that does not reproduce is reported as broken, not as a violation"},
	})
	register(Harness{
		Prop: "C09", Pkg: "storage/mem", Func: "VerifC09CapSize",
		Quick:    [][]int64{{1}, {2}},
		Thorough: [][]int64{{3}},
		Unwind:   40,
		Desc:     "mailbox cap 1 and maxkb 1 together; a delivery that cap-evicts from mailbox a races with a delivery to b that pushes the store over the size limit while the store's oldest message is in a: both deliveries return, no panic, no deadlock, cap and size limit hold afterwards, store usable",
		Bounds:   "param (pre-emption budget); schedules = run-to-block plus up to `pre` pre-emptions before unbuffered channel sends and mutex acquisitions; 3 goroutines + enforcer",
		Assumes:  []string{"threads are atomic between visible operations", "native replay by repetition (200 rounds) with a 3 s watchdog"},
	})
	register(Harness{
		Prop: "C09", Pkg: "storage/file", Func: "VerifC09FileRace", InitPkgs: []string{"storage"},
		Quick:      [][]int64{{0, 2}, {1, 2}, {2, 1}, {3, 2}, {4, 2}, {5, 2}, {6, 2}},
		Thorough:   [][]int64{{0, 3}, {1, 3}, {2, 3}, {3, 3}, {4, 3}, {5, 3}, {6, 3}},
		Unwind:     40,
		LoopBounds: fileLoopBounds,
		Desc:       "two operations on the same file-store mailbox run concurrently over the file-system model (mark seen / remove / deliver / purge / retention scan against a delivery or a purge; a purge against the first delivery to a sibling mailbox in the same level-1 directory and lock bucket; two mark-seen calls on two messages of one mailbox): both return, no panic, no deadlock, and the mailbox afterwards is what a serial order gives (no delivered message lost, no removed message back, seen flag kept, ids distinct)",
		Bounds:     "params (scenario, pre-emption budget); schedules = run-to-block plus up to `pre` pre-emptions before mutex / RWMutex acquisitions and unbuffered channel sends; 2 client goroutines + id generator",
		Assumes:    []string{"threads are atomic between visible operations", "file-system model of C10", "native replay by repetition (100 rounds on a real directory)"},
	})
	register(Harness{
		Prop: "C09", Pkg: "storage/mem", Func: "VerifC09FirstDeliveries",
		Quick:    [][]int64{{2}},
		Thorough: [][]int64{{3}, {4}},
		Unwind:   40,
		Desc:     "concurrent deliveries to a mailbox that does not exist yet (creation of the mailbox races): every acknowledged delivery is stored, ids distinct",
		Bounds:   "param (pre-emption budget); 2 delivering goroutines under the engine (8 natively, 400 rounds)",
		Assumes:  []string{"threads are atomic between visible operations", "native replay by repetition"},
	})
	register(Harness{
		Prop: "C09", Pkg: "storage/mem", Func: "VerifC09EvictVsRemove",
		Quick:    [][]int64{{2}},
		Thorough: [][]int64{{2}, {3}},
		Unwind:   40,
		Desc:     "size limit: a client removes the store's oldest message while a delivery to another mailbox makes the enforcer pick that same message for eviction; both return and the enforcer's accounting stays exact (a message that fits afterwards evicts nothing)",
		Bounds:   "param (pre-emption budget); 2 client goroutines + enforcer; sizes 600/600/400/1 bytes against 1 KiB",
		Assumes:  []string{"threads are atomic between visible operations", "native replay by repetition (300 rounds)"},
	})
}
