package main

func init() {
	register(Harness{
		Prop: "C04", Pkg: "policy", Func: "VerifC04FixedPoint",
		Quick:    grid(rng(1, 3), rng(0, 6)),
		Thorough: grid(rng(1, 3), rng(0, 12)), QTThorough: 400,
		Desc:   "NewRecipient(addr) accepted => mailbox non-empty, equals ExtractMailbox(addr), and is a fixed point of ExtractMailbox",
		Bounds: "params (naming mode 1=local 2=full 3=domain, exact address length n); every byte value at every position",
	}, Harness{
		Prop: "C04", Pkg: "policy", Func: "VerifC04Case",
		Quick:    grid(rng(1, 3), rng(1, 5)),
		Thorough: grid(rng(1, 3), rng(1, 10)),
		Desc:     "two addresses equal up to ASCII letter case: accepted alike, same mailbox",
		Bounds:   "params (mode, exact length n of both addresses); all byte values",
	}, Harness{
		Prop: "C04", Pkg: "policy", Func: "VerifC04PlusExt",
		Quick:    grid(rng(1, 3), rng(1, 2), rng(0, 2), rng(1, 2)),
		Thorough: grid(rng(1, 3), rng(1, 5), rng(0, 3), rng(1, 4)),
		Desc:     "L@D and L+E@D (unquoted L without '+') both accepted => same mailbox",
		Bounds:   "params (mode, len L, len E, len D); all byte values subject to the stated assumptions on L",
		Assumes:  []string{"PlusExt: L contains none of + \" \\ @ (the quoted forms are covered by FixedPoint/Case only)"},
	}, Harness{
		Prop: "C04", Pkg: "policy", Func: "VerifC04Rcpt",
		Quick:    grid(rng(1, 3), rng(0, 6)),
		Thorough: grid(rng(1, 3), rng(0, 11)), QTThorough: 400,
		Desc:   "raw RCPT argument -> handler trimming -> NewRecipient: accepted => non-empty fixed point",
		Bounds: "params (mode, exact length of the text after 'TO:'); all byte values",
	}, Harness{
		Prop: "C04", Pkg: "server/pop3", Func: "VerifC04Pop3",
		Quick:    [][]int64{{1}, {2}, {3}},
		Thorough: [][]int64{{1}, {2}, {3}},
		Unwind:   40,
		Desc:     "POP3 as a read interface: USER/PASS or APOP with any spelling of the delivery address (case, +extension, full address) reaches the mailbox ExtractMailbox names for it in the configured naming mode (STAT shows its message, DELE+QUIT remove it from that mailbox)",
		Bounds:   "param (naming mode); five spellings of one address and USER/APOP (symbolic selectors); real POP3 session with the addressing policy set as pkg/server/lifecycle.go sets it (the wiring line itself is outside)",
	})
}
