package main

import (
	"fmt"
	"os"
	"runtime/pprof"
	"sort"
	"strconv"
	"time"

	"gosmt/sx"
)

func main() {
	if len(os.Args) < 2 {
		fmt.Println("usage: gosmt check <ID> [--tier quick|thorough] | run <pkg> <func> [int params...] | list")
		os.Exit(2)
	}
	os.Setenv("GOMAXPROCS", "8")
	if pf := os.Getenv("GOSMT_CPUPROF"); pf != "" {
		if f, err := os.Create(pf); err == nil {
			pprof.StartCPUProfile(f)
			defer pprof.StopCPUProfile()
		}
	}
	switch os.Args[1] {
	case "run":
		debugRun(os.Args[2:])
	case "check":
		if len(os.Args) < 3 {
			os.Exit(2)
		}
		tier := os.Getenv("VERIF_TIER")
		if tier == "" {
			tier = "quick"
		}
		for i, a := range os.Args {
			if a == "--tier" && i+1 < len(os.Args) {
				tier = os.Args[i+1]
			}
		}
		os.Exit(cmdCheck(os.Args[2], tier))
	case "list":
		for _, h := range registry {
			fmt.Printf("%s %s.%s quick=%d thorough=%d\n", h.Prop, h.Pkg, h.Func, len(h.Quick), len(h.Thorough))
		}
	default:
		fmt.Println("unknown command")
		os.Exit(2)
	}
}

func debugRun(args []string) {
	pkg, fn := args[0], args[1]
	var params []int64
	for _, a := range args[2:] {
		v, _ := strconv.ParseInt(a, 10, 64)
		params = append(params, v)
	}
	t0 := time.Now()
	ov, err := sx.BuildOverlay("/verif/harness", "/repo", false)
	if err != nil {
		panic(err)
	}
	pats := []string{"./pkg/" + pkg, "./pkg/zzvrf"}
	if e := os.Getenv("GOSMT_EXTRA"); e != "" {
		pats = append(pats, "./pkg/"+e)
	}
	prog, err := sx.Load("/repo", ov, pats)
	if err != nil {
		fmt.Println(err)
		os.Exit(2)
	}
	fmt.Printf("loaded in %v\n", time.Since(t0))
	f := prog.Func(sx.ModPath+"/pkg/"+pkg, fn)
	if f == nil {
		fmt.Println("no such function")
		os.Exit(2)
	}
	unw := 0
	if u := os.Getenv("GOSMT_UNWIND"); u != "" {
		unw, _ = strconv.Atoi(u)
	}
	initPkgs := []string{sx.VrfPkg, sx.ModPath + "/pkg/" + pkg}
	var loopBounds map[string]int
	for _, h := range registry {
		if h.Pkg == pkg && h.Func == fn {
			for _, p := range h.InitPkgs {
				initPkgs = append(initPkgs, sx.ModPath+"/pkg/"+p)
			}
			initPkgs = append(initPkgs, h.InitAbs...)
			loopBounds = h.LoopBounds
			if unw == 0 {
				unw = h.Unwind
			}
			break
		}
	}
	x := sx.NewExec(prog.Prog, sx.Config{Progress: 500, Trace: os.Getenv("GOSMT_TRACE") != "", InitPkgs: initPkgs,
		StubPkgs: stubPkgs, MaxUnwind: unw, LoopBounds: loopBounds})
	x.InstallRedirects(prog)
	var vals []sx.Value
	for _, p := range params {
		vals = append(vals, x.TB().Int64(p))
	}
	t1 := time.Now()
	func() {
		defer func() {
			if r := recover(); r != nil {
				if ee, ok := r.(*sx.EngineError); ok {
					fmt.Println("ENGINE ERROR:", ee.Msg)
					if os.Getenv("GOSMT_PROFTERMS") != "" {
						type kv struct {
							k string
							v int
						}
						var l []kv
						for k, v := range x.TermProf {
							l = append(l, kv{k, v})
						}
						sort.Slice(l, func(i, j int) bool { return l[i].v > l[j].v })
						for i := 0; i < 12 && i < len(l); i++ {
							fmt.Printf("TERMS %8d %s\n", l[i].v, l[i].k)
						}
					}
					os.Exit(2)
				}
				panic(r)
			}
		}()
		x.Run(f, vals)
	}()
	fmt.Printf("executed in %v: states=%d merges=%d forks=%d instrs=%d terms=%d obligations=%d\n", time.Since(t1), x.NStates, x.NMerges, x.NForks, x.NInstr, x.TB().NTerms, len(x.Obligations))
	if os.Getenv("GOSMT_PROFTERMS") != "" {
		type kv struct {
			k string
			v int
		}
		var l []kv
		for k, v := range x.TermProf {
			l = append(l, kv{k, v})
		}
		sort.Slice(l, func(i, j int) bool { return l[i].v > l[j].v })
		for i := 0; i < 15 && i < len(l); i++ {
			fmt.Printf("TERMS %8d %s\n", l[i].v, l[i].k)
		}
		return
	}
	res, st, err := x.Discharge(solverName(), 60*time.Second, nil, nil)
	if err != nil {
		panic(err)
	}
	for _, r := range res {
		fmt.Printf("%-8s %-7s %5dms %s @ %s\n", r.Ob.Kind, r.Res, r.Millis, r.Ob.Label, r.Ob.Pos)
		if r.Res == sx.Sat && r.Ob.Kind != "cover" {
			fmt.Printf("   model: %v\n", renderAssign(r.Assign))
		}
	}
	fmt.Printf("queries=%d solver=%dms\n", st.Queries, st.SolverMs)
}

func solverName() string {
	if s := os.Getenv("GOSMT_SOLVER"); s != "" {
		return s
	}
	return "z3-new"
}
