package main

import (
	"fmt"
	"os"
	"strconv"
	"time"

	"gosmt/sx"
)

func main() {
	if len(os.Args) < 2 {
		fmt.Println("usage: gosmt run <pkg> <func> [int params...]")
		os.Exit(2)
	}
	switch os.Args[1] {
	case "run":
		debugRun(os.Args[2:])
	}
}

func debugRun(args []string) {
	pkg, fn := args[0], args[1]
	var params []int64
	for _, a := range args[2:] {
		v, _ := strconv.ParseInt(a, 10, 64)
		params = append(params, v)
	}
	t0 := time.Now()
	ov, err := sx.BuildOverlay("/verif/harness", "/repo", false)
	if err != nil {
		panic(err)
	}
	prog, err := sx.Load("/repo", ov, []string{"./pkg/" + pkg, "./pkg/zzvrf"})
	if err != nil {
		fmt.Println(err)
		os.Exit(2)
	}
	fmt.Printf("loaded in %v\n", time.Since(t0))
	f := prog.Func(sx.ModPath+"/pkg/"+pkg, fn)
	if f == nil {
		fmt.Println("no such function")
		os.Exit(2)
	}
	x := sx.NewExec(prog.Prog, sx.Config{Progress: 200, Trace: os.Getenv("GOSMT_TRACE") != "", InitPkgs: []string{sx.ModPath + "/pkg/" + pkg},
		StubPkgs: []string{"github.com/rs/zerolog", "expvar"}})
	var vals []sx.Value
	for _, p := range params {
		vals = append(vals, x.TB().Int64(p))
	}
	t1 := time.Now()
	func() {
		defer func() {
			if r := recover(); r != nil {
				if ee, ok := r.(*sx.EngineError); ok {
					fmt.Println("ENGINE ERROR:", ee.Msg)
					os.Exit(2)
				}
				panic(r)
			}
		}()
		x.Run(f, vals)
	}()
	fmt.Printf("executed in %v: states=%d merges=%d forks=%d instrs=%d terms=%d obligations=%d\n", time.Since(t1), x.NStates, x.NMerges, x.NForks, x.NInstr, x.TB().NTerms, len(x.Obligations))
	res, st, err := x.Discharge(solverName(), 20*time.Second, nil, func(m string) { fmt.Println("  ..", m) })
	if err != nil {
		panic(err)
	}
	for _, r := range res {
		fmt.Printf("%-8s %-7s %5dms %s @ %s\n", r.Ob.Kind, r.Res, r.Millis, r.Ob.Label, r.Ob.Pos)
		if r.Res == sx.Sat && r.Ob.Kind != "cover" {
			fmt.Printf("   model: %v\n", showAssign(r.Assign))
		}
	}
	fmt.Printf("queries=%d solver=%dms\n", st.Queries, st.SolverMs)
}

func showAssign(a map[string]interface{}) string {
	s := ""
	for k, v := range a {
		if bs, ok := v.([]int); ok {
			b := make([]byte, len(bs))
			for i := range bs {
				b[i] = byte(bs[i])
			}
			s += fmt.Sprintf("%s=%q ", k, string(b))
		} else {
			s += fmt.Sprintf("%s=%v ", k, v)
		}
	}
	return s
}

func solverName() string {
	if s := os.Getenv("GOSMT_SOLVER"); s != "" {
		return s
	}
	return "z3-new"
}
