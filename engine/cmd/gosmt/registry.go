package main

// Harness describes one symbolic harness function and its parameter grid.
type Harness struct {
	Prop string
	Pkg  string // package directory under /repo/pkg
	Func string
	// Quick / Thorough: list of concrete parameter vectors (the runner's case split)
	Quick    [][]int64
	Thorough [][]int64
	Unwind   int
	// QueryTimeoutS per solver query (seconds) for quick / thorough
	QTQuick, QTThorough int
	// Desc and Bounds are copied into the evidence
	Desc   string
	Bounds string
	// ExtraPkgs: additional package directories (under pkg/) that must be loaded
	ExtraPkgs []string
	// InitPkgs: package dirs whose initialisers are executed (the harness package always is)
	InitPkgs []string
	// InitAbs: full import paths (standard library / vendored) whose initialisers are executed
	InitAbs []string
	Assumes []string
	// NoReplay: counterexamples of this harness cannot be replayed natively by calling the
	// harness itself (never the case for registered harnesses unless stated)
	NoReplay bool
	// LoopBounds overrides per function
	LoopBounds map[string]int
}

func grid(dims ...[]int64) [][]int64 {
	out := [][]int64{{}}
	for _, d := range dims {
		var n [][]int64
		for _, p := range out {
			for _, v := range d {
				q := append(append([]int64(nil), p...), v)
				n = append(n, q)
			}
		}
		out = n
	}
	return out
}

func rng(lo, hi int64) []int64 {
	var r []int64
	for i := lo; i <= hi; i++ {
		r = append(r, i)
	}
	return r
}

// PropInfo: per-property manifest/evidence texts.
type PropInfo struct {
	Level       string
	Explanation string
	Trusted     []string
}

var stubPkgs = []string{
	"github.com/rs/zerolog", "expvar", "github.com/inbucket/inbucket/v3/pkg/metric", "log",
}

var registry = []Harness{}

func register(h ...Harness) { registry = append(registry, h...) }

func harnessesFor(prop string) []Harness {
	var out []Harness
	for _, h := range registry {
		if h.Prop == prop {
			out = append(out, h)
		}
	}
	return out
}
