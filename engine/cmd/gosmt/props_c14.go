package main

func init() {
	register(Harness{
		Prop: "C14", Pkg: "zzc14", Func: "VerifC14Handlers",
		ExtraPkgs: []string{"rest", "webui", "server/web", "message", "storage/mem", "storage/file"},
		InitPkgs:  []string{"storage", "storage/mem", "storage/file", "message", "rest", "webui", "server/web", "policy"},
		Quick:     append(append(grid(rng(0, 2), rng(0, 9), []int64{0}), grid([]int64{2}, rng(0, 9), []int64{1})...), []int64{11, 0, 0}, []int64{11, 0, 1}),
		Thorough:  append(grid(rng(0, 3), rng(0, 9), []int64{0}), grid(rng(0, 2), rng(0, 9), []int64{1})...),
		Unwind:    40, LoopBounds: fileLoopBounds,
		Desc:    "one request to each REST v1 handler (list, show, source, mark-seen, delete, purge) and web UI handler (message, source, html, attachment) over the real StoreManager + memory store holding m messages; name from a menu of aliases of the mailbox / another mailbox / an invalid name, id from {1,2,latest,9,\"\"}; status <=> existence, payload and effects == store",
		Bounds:  "params (messages m, handler number, back-end 0 memory / 1 file store over the file-system model); symbolic name, id, request body of mark-seen",
		Assumes: []string{"gorilla/mux routing, net/http, encoding/json and enmime are models/stubs: handlers are called with the route variables already extracted; JSON values are compared before encoding (natively: after decoding the real JSON)", "base-path prefixing and URL-significant characters through the router are outside this harness (they are the subject of VerifC14Client)"},
	})
}

func init() {
	register(Harness{
		Prop: "C14", Pkg: "rest/client", Func: "VerifC14Client",
		ExtraPkgs: []string{"rest", "server/web"},
		InitPkgs:  []string{"server/web"},
		InitAbs:   []string{"vendor/golang.org/x/net/http/httpguts"},
		Quick:     grid(rng(0, 5), rng(0, 2)),
		Thorough:  grid(rng(0, 5), rng(0, 2)),
		Unwind:    80,
		Desc:      "every operation of the bundled Go client, executed with the real net/url and net/http request construction (from their SSA), against a capturing transport: method, decoded path /api/v1/mailbox/<name>[/<id>[/source]], the request is routed to the mailbox route and the handler's route variable (real web.NewContext) is the mailbox name, and — for mark-seen — presence of the JSON body the handler requires",
		Bounds:    "params (client operation, base path none / inbucket / \"my app\"); mailbox name from a menu of 9 names with URL-significant characters (symbolic selector); the escaping itself is checked for all ASCII names of <= 3 (6) bytes by VerifC14Escape",
		Assumes:   []string{"the route table (method, path template, body requirement) is read from rest/routes.go and apiv1_controller.go, the way the routes are mounted under the base path (web.RoutePrefixer) from server/lifecycle.go; gorilla/mux matching itself is not executed under the engine: its documented segment rule stands in, applied to the decoded or the encoded path according to the useEncodedPath flag of the real web.Router object (built by package web's initialiser, executed from SSA); counterexamples are replayed against the real gorilla/mux router with the real route table", "gorilla/mux SetURLVars/Vars (request context) are modelled as a variable holding the vars of the request in flight"},
	}, Harness{
		Prop: "C14", Pkg: "rest/client", Func: "VerifC14ClientSource",
		ExtraPkgs: []string{"rest", "server/web"},
		InitAbs:   []string{"vendor/golang.org/x/net/http/httpguts"},
		Quick:     grid(rng(0, 1)),
		Thorough:  grid(rng(0, 1)),
		Unwind:    80,
		Desc:      "the response side of the client's GetMessageSource: the buffer handed to the caller holds exactly the body of the server's 200 answer",
		Bounds:    "param (mode): 0 = body of symbolic length 1 .. 16 MiB, content not inspected; 1 = 6 arbitrary bytes",
		Assumes:   []string{"the transport is a capturing stub that answers 200 with the given body; the JSON-decoding client methods are not covered (encoding/json is a model)"},
	}, Harness{
		Prop: "C14", Pkg: "rest/client", Func: "VerifC14Escape",
		Quick:    grid(rng(0, 3)),
		Thorough: grid(rng(0, 6)),
		Desc:     "url.QueryEscape(name) contains no path separators and PathUnescape gives the name back",
		Bounds:   "param (name length); ASCII names without space",
	})
}
