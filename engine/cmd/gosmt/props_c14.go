package main

func init() {
	register(Harness{
		Prop: "C14", Pkg: "zzc14", Func: "VerifC14Handlers",
		ExtraPkgs: []string{"rest", "webui", "server/web", "message", "storage/mem"},
		InitPkgs:  []string{"storage", "storage/mem", "message", "rest", "webui", "server/web", "policy"},
		Quick:     grid(rng(0, 2), rng(0, 9)),
		Thorough:  grid(rng(0, 3), rng(0, 9)),
		Unwind:    40,
		Desc:      "one request to each REST v1 handler (list, show, source, mark-seen, delete, purge) and web UI handler (message, source, html, attachment) over the real StoreManager + memory store holding m messages; name from a menu of aliases of the mailbox / another mailbox / an invalid name, id from {1,2,latest,9,\"\"}; status <=> existence, payload and effects == store",
		Bounds:    "params (messages m, handler number); symbolic name, id, request body of mark-seen",
		Assumes:   []string{"gorilla/mux routing, net/http, encoding/json and enmime are models/stubs: handlers are called with the route variables already extracted; JSON values are compared before encoding (natively: after decoding the real JSON)", "memory back-end only; base-path prefixing and URL-significant characters through the router are outside the claim"},
	})
}
