package main

func init() {
	register(Harness{
		Prop: "C07", Pkg: "storage/mem", Func: "VerifC07History",
		Quick:    [][]int64{{4, 0}, {3, 1}},
		Thorough: [][]int64{{4, 0}, {3, 1}, {3, 0}},
		Unwind:   40,
		Desc:     "k symbolic operations (deliver/get/mark-seen/remove/purge/visit/list) over two mailboxes on a fresh mem.New store, every result compared with an ordered-list reference model",
		Bounds:   "params (k operations, cap mode); symbolic: operation, mailbox, id from {1,2,3,latest,7,\"\"}, first content byte, body length 1..3, cap in {1,2}",
	})
}
