package main

func init() {
	register(Harness{
		Prop: "C13", Pkg: "server/pop3", Func: "VerifC13Session",
		Quick:    [][]int64{{0, 3, 1, 2}, {1, 4, 0, 3}, {1, 3, 1, 3}, {1, 3, 1, 1}},
		Thorough: [][]int64{{0, 4, 1, 3}, {1, 6, 0, 3}, {1, 4, 1, 3}, {1, 5, 0, 0}, {1, 5, 0, 1}, {1, 5, 1, 2}}, QTThorough: 400,
		Unwind:  60,
		Desc:    "real pop3.startSession loop: optional USER/PASS prelude, k symbolic steps from a menu (valid, malformed, out-of-range, repeated arguments, any USER/PASS/APOP order), then EOF; ghost POP3 model (snapshot at login, mark set); store content changes behind the session",
		Bounds:  "params (login prelude?, k symbolic steps, full menu?, messages in the mailbox); symbolic sizes, line selectors, whether the store changes after login",
		Assumes: []string{"bufio.Reader.ReadString / fmt.Fprint over the connection and bufio.Scanner are models (zzvrf.Model*); natively the real ones run over the same scripted connection", "numeric arguments come from the menu (0,1,2,3,4,7,9,-1,x): argument parsing is exercised on those strings only"},
	})
}
