package main

func init() {
	register(Harness{
		Prop: "C15", Pkg: "rest", Func: "VerifC15Hub", ExtraPkgs: []string{"msghub"}, InitPkgs: []string{"msghub"},
		Quick:    [][]int64{{2, 3}, {1, 3}, {0, 2}},
		Thorough: [][]int64{{2, 4}, {1, 4}, {3, 4}, {0, 3}},
		Unwind:   40,
		Desc:     "real msghub.Hub (Start loop as a goroutine) with real msgListenerV2 monitors: k symbolic actions (store in mailbox a/b, delete an earlier message, a monitor joins with or without a mailbox filter, the first monitor's client reads an event, the first monitor disconnects); every monitor's queue == retained history + later events for its filter, once, in order; a disconnected monitor is dropped",
		Bounds:   "params (history length, k actions); the hub goroutine runs whenever the harness waits (run-to-block): one schedule per action sequence; listener buffers (100) and the operation queue (100) never fill within the bound",
		Assumes:  []string{"WebSocket I/O (gorilla/websocket) is outside the encoding: WSReader/WSWriter are represented by the channel receive and the Close() call they perform", "the v1 listener is not driven (it shares Receive/Close with v2 and ignores deletes by design)"},
	})
	register(Harness{
		Prop: "C15", Pkg: "msghub", Func: "VerifC15Burst",
		Quick:    [][]int64{{103, 3}},
		Thorough: [][]int64{{103, 3}, {130, 0}, {105, 5}},
		Unwind:   260,
		Desc:     "a burst of n > 100 events dispatched while the hub goroutine is held inside a slow monitor (symbolic gate): the 100-slot operation queue fills and the dispatcher waits; afterwards the monitor has every event once and in order, and a late monitor gets the retained history",
		Bounds:   "params (burst size n, history length); one slow monitor, one dispatcher goroutine; run-to-block scheduling plus the gate",
	})
	register(Harness{
		Prop: "C15", Pkg: "rest", Func: "VerifC15CloseRace", ExtraPkgs: []string{"msghub"}, InitPkgs: []string{"msghub"},
		Quick:    [][]int64{{2}},
		Thorough: [][]int64{{0}, {2}},
		Unwind:   40,
		Desc:     "a monitor disconnects while events are queued in the hub ahead of its unregistration (hub held inside a slow monitor by a symbolic gate): the other monitor still receives every event, in order, and the hub keeps working",
		Bounds:   "param (history length); three monitors (leaving, staying, slow), two events around the disconnect; gate = hub busy or not; natively repeated 24 times (map iteration order of the hub's listeners)",
	})
	register(Harness{
		Prop: "C15", Pkg: "rest", Func: "VerifC15Slow", ExtraPkgs: []string{"msghub"}, InitPkgs: []string{"msghub"},
		Quick:    [][]int64{{103}, {210}},
		Thorough: [][]int64{{101}, {103}, {120}, {210}, {230}},
		Unwind:   260,
		Desc:     "a WebSocket monitor that nobody reads (its 100-slot queue fills) while n > 100 events are dispatched: the hub keeps serving (Sync returns) and a second monitor gets every event in order",
		Bounds:   "param n (events); one unread msgListenerV2, one counting monitor, one dispatcher goroutine; 3 s watchdog natively",
	})
	register(Harness{
		Prop: "C15", Pkg: "rest", Func: "VerifC15ViaHost", ExtraPkgs: []string{"msghub"}, InitPkgs: []string{"msghub"},
		Quick:    [][]int64{{2}},
		Thorough: [][]int64{{2}, {3}},
		Unwind:   40,
		Desc:     "the hub fed through the extension host as in the server: a message stored and deleted at once; an attached monitor sees stored before deleted, a monitor joining afterwards is not replayed the deleted message",
		Bounds:   "param (pre-emption budget for the event dispatch goroutines); one message, two monitors; natively repeated 300 times",
	})
}
