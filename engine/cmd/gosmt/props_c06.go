package main

func init() {
	register(Harness{
		Prop: "C06", Pkg: "server/smtp", Func: "VerifC06Size",
		Quick:    [][]int64{{0, 0}, {1, 0}, {3, 1}, {5, 2}, {4, 0}, {20, 0}},
		Thorough: append(grid(rng(0, 6), rng(0, 2)), []int64{20, 0}, []int64{20, 1}),
		Desc:     "EHLO, MAIL [SIZE=<nd digits>], RCPT, DATA, body of symbolic length, MAIL again: refusal iff over MaxMessageBytes, nothing delivered when refused, session usable afterwards",
		Bounds:   "params (nd = number of digits of the declared SIZE, 0 = none, 20 = a menu of six concrete sizes of 2^32 .. 10^20-1; spelling of the SIZE keyword); symbolic: an extension that allows the sender or stays silent, symbolic limit in [1,60000], body length in [0,70000] (content never inspected), declared size digits",
		Assumes:  []string{"the MAIL parameter regexps are evaluated on a representative of the digit class (patterns contain no digit-specific atoms)"},
	})
	register(Harness{
		Prop: "C03", Pkg: "server/smtp", Func: "VerifC06Size",
		Quick:    [][]int64{{0, 0}},
		Thorough: [][]int64{{0, 0}, {2, 0}},
		Desc:     "end of DATA discards the envelope also when the message is refused for its size: the next transaction on the connection delivers to its own recipient only (see C06)",
		Bounds:   "see C06",
	})
}
