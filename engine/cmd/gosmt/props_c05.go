package main

func init() {
	register(Harness{
		Prop: "C05", Pkg: "policy", Func: "VerifC05Decide", ExtraPkgs: []string{"config"},
		Quick:    append(grid(rng(0, 2), rng(1, 3), rng(1, 3)), []int64{1, 9, 9}, []int64{1, 6, 6}),
		Thorough: append(grid(rng(0, 3), rng(1, 4), rng(1, 5)), []int64{1, 9, 9}, []int64{2, 9, 9}, []int64{1, 11, 11}, []int64{1, 6, 6}, []int64{1, 7, 7}),
		Desc:     "ShouldAcceptDomain/ShouldStoreDomain and Recipient.ShouldAccept/ShouldStore equal the documented rule (case-insensitive) with lists loaded through the real config.Process",
		Bounds:   "params (entries per list k, entry length, domain length; the 6..11-byte instances reach address-literal domains such as [::1] and [IPv6:::]); symbolic default switches, list contents (ASCII, no ',' / NUL), domain (assumed ValidateDomainPart)",
		Assumes:  []string{"envconfig.Process modelled as: fills the struct with arbitrary values (natively: real environment variables, comma-separated lists)"},
	}, Harness{
		Prop: "C05", Pkg: "policy", Func: "VerifC05Origin", ExtraPkgs: []string{"config"},
		Quick:    grid(rng(0, 2), rng(1, 3), rng(1, 3)),
		Thorough: grid(rng(0, 2), rng(1, 4), rng(1, 5)),
		Desc:     "ShouldAcceptOriginDomain = no reject-origin pattern (wildcards, case-insensitive, via config.Process) matches",
		Bounds:   "params (patterns k, pattern length, domain length)",
	}, Harness{
		Prop: "C05", Pkg: "stringutil", Func: "VerifC05Wildcard",
		Quick:    grid(rng(0, 4), rng(0, 4)),
		Thorough: grid(rng(0, 6), rng(0, 7)),
		Desc:     "MatchWithWildcards equals a reference matcher",
		Bounds:   "params (pattern length, subject length); ASCII pattern incl. * and ?, subject without * and ?",
	}, Harness{
		Prop: "C05", Pkg: "stringutil", Func: "VerifC05Lower",
		Quick:    grid(rng(1, 4)),
		Thorough: grid(rng(1, 8)),
		Desc:     "SliceToLower / SliceContains",
		Bounds:   "param (string length)",
	})
	register(Harness{
		Prop: "C05", Pkg: "server/smtp", Func: "VerifC03Machine",
		Quick:    [][]int64{{3, 5, 0, 0}},
		Thorough: [][]int64{{3, 6, 0, 1}},
		Unwind:   60,
		Desc:     "recipient limit in the real SMTP session: RCPT beyond MaxRecipients is refused and a refused recipient is not part of the delivered envelope (ghost envelope from reply codes; see C03)",
		Bounds:   "see C03",
	})
}
