package main

var fileLoopBounds = map[string]int{"github.com/inbucket/inbucket/v3/pkg/storage/file.countGenerator": 400}

func init() {
	register(Harness{
		Prop: "C10", Pkg: "storage/file", Func: "VerifC10History", InitPkgs: []string{"storage"},
		Quick:      [][]int64{{2, 0}, {2, 1}},
		Thorough:   [][]int64{{3, 0}, {3, 1}, {3, 2}},
		Unwind:     40,
		LoopBounds: fileLoopBounds,
		Desc:       "k symbolic operations on file.New over the file-system model: deliver (fresh/old date, symbolic first content byte), get, mark seen, remove, purge, visit, retention scan and reopen (a new Store on the same path); after every step every mailbox is compared with a reference model (ids, order, subject, from, to, date, seen, size, content), ids are never reused, one deleted event per departure",
		Bounds:     "params (k operations, mailbox cap); two mailboxes; at most 3 live messages per mailbox addressed; bodies of 2 bytes; os / bufio.Writer / encoding/gob / crypto/sha1 replaced by the Go-written file-system model (harness/zzvrf/vfs.go); restart = new Store object in the same process (the id counter keeps running)",
		Assumes:    []string{"gob round trip = deep copy of exported fields (nil and empty slices decode as nil); time.Time survives the round trip", "bufio.Writer content reaches the file at Flush", "directory listing order is the model map's insertion order"},
	})
}
