package main

var fileLoopBounds = map[string]int{"github.com/inbucket/inbucket/v3/pkg/storage/file.countGenerator": 400}

func init() {
	register(Harness{
		Prop: "C10", Pkg: "storage/file", Func: "VerifC10History", InitPkgs: []string{"storage"},
		Quick:      [][]int64{{2, 0, 0, 0, 0}, {2, 1, 0, 0, 0}, {2, 0, 1, 0, 0}, {1, 1, 1, 0, 0}, {1, 0, 1, 1, 0}, {1, 0, 1, 2, 0}, {2, 0, 2, 0, 0}, {2, 0, 2, 0, 1}},
		Thorough:   [][]int64{{3, 0, 0, 0, 0}, {3, 1, 0, 0, 0}, {2, 2, 1, 0, 0}, {2, 1, 1, 0, 0}, {2, 0, 1, 1, 0}, {2, 0, 1, 2, 0}, {2, 1, 0, 2, 0}, {2, 1, 1, 1, 0}, {2, 0, 2, 0, 0}, {2, 2, 2, 0, 1}, {2, 0, 2, 0, 1}},
		Unwind:     40,
		LoopBounds: fileLoopBounds,
		Desc:       "k symbolic operations on file.New over the file-system model: deliver (fresh/old date, symbolic first content byte), get, mark seen, remove, purge, visit, retention scan and reopen (a new Store on the same path); after every step every mailbox is compared with a reference model (ids, order, subject, from, to, date, seen, size, content), ids are never reused, one deleted event per departure",
		Bounds:     "params (k operations, mailbox cap, pre: concrete prelude of one delivery per mailbox, name set: unrelated names / same level-1 directory and lock / same level-1 and level-2 directories, recap: cap of the store after a restart when it differs); two mailboxes; at most 3 live messages per mailbox addressed; bodies of 2 bytes; os / bufio.Writer / encoding/gob / crypto/sha1 replaced by the Go-written file-system model (harness/zzvrf/vfs.go); restart = new Store object in the same process (the id counter keeps running)",
		Assumes:    []string{"gob round trip = deep copy of exported fields (nil and empty slices decode as nil); time.Time survives the round trip", "bufio.Writer content reaches the file at Flush", "directory listing order is the model map's insertion order"},
	})
	// the same history harness serves the file-store half of other properties
	for _, e := range []struct {
		prop     string
		quick    [][]int64
		thorough [][]int64
		what     string
	}{
		{"C07", [][]int64{{2, 0, 0, 0, 0}, {2, 1, 0, 0, 0}, {1, 0, 1, 1, 0}, {2, 0, 1, 0, 0}, {1, 0, 1, 2, 0}}, [][]int64{{3, 0, 0, 0, 0}, {3, 1, 0, 0, 0}, {2, 2, 1, 0, 0}, {2, 0, 1, 1, 0}, {2, 0, 1, 2, 0}}, "file back-end half of the store semantics"},
		{"C16", [][]int64{{2, 0, 1, 0, 0}, {2, 1, 1, 0, 0}}, [][]int64{{2, 0, 1, 0, 0}, {2, 1, 1, 0, 0}, {3, 1, 0, 0, 0}, {2, 2, 1, 0, 0}}, "deleted events of the file store (remove, purge, cap eviction, retention)"},
		{"C12", [][]int64{{1, 0, 1, 0, 0}, {2, 0, 0, 0, 0}}, [][]int64{{2, 0, 1, 0, 0}, {3, 0, 0, 0, 0}, {1, 0, 1, 2, 0}}, "retention scan and visitor protocol on the file store"},
	} {
		register(Harness{
			Prop: e.prop, Pkg: "storage/file", Func: "VerifC10History", InitPkgs: []string{"storage"},
			Quick: e.quick, Thorough: e.thorough, Unwind: 40, LoopBounds: fileLoopBounds,
			Desc:    e.what + ": k symbolic operations on file.New over the file-system model (deliver fresh/old, get, mark seen, remove, purge, visit, retention scan, reopen) compared after every step with a reference model; one deleted event per departure",
			Bounds:  "params (k operations, mailbox cap, concrete prelude, name set); two mailboxes; bodies of 2 bytes; os/bufio.Writer/gob/sha1 replaced by the file-system model",
			Assumes: []string{"see C10"},
		})
	}
}
