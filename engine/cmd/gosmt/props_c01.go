package main

func init() {
	deliver := Harness{
		Pkg: "zzdeliver", Func: "VerifC01Deliver", ExtraPkgs: []string{"storage/mem", "storage/file", "message"}, InitPkgs: []string{"storage", "storage/mem", "storage/file", "message"},
		Quick:    [][]int64{{1, 2, 3, 0}, {2, 2, 3, 0}, {3, 2, 2, 0}, {2, 3, 0, 0}, {2, 2, 2, 1}, {1, 2, 3, 1}},
		Thorough: [][]int64{{1, 3, 6, 0}, {2, 3, 6, 0}, {3, 3, 6, 0}, {2, 2, 10, 0}, {1, 3, 4, 1}, {2, 3, 4, 1}, {3, 2, 6, 1}},
		Unwind:   40, LoopBounds: fileLoopBounds,
		Desc:    "real StoreManager.Deliver + policy + mem.Store or file.Store: r recipients from a menu (duplicates by case/+ext, discard-listed domain), symbolic store policy, symbolic body bytes; per-mailbox message counts, metadata, byte-exact source (trace headers + body) and size; one stored event per message",
		Bounds:  "params (naming mode, recipients r, body length <= n, back-end: 0 memory / 1 file store over the file-system model); every byte value in the body",
		Assumes: []string{"enmime header decoding is a model (the delivered message carries no From/To/Subject headers); natively the real enmime parses the real bytes", "asynchronous event listeners are run to completion before the harness reads their effects"},
	}
	d1, d2, d16 := deliver, deliver, deliver
	d1.Prop, d2.Prop, d16.Prop = "C01", "C02", "C16"
	register(d1, d2, d16)
	register(Harness{
		Prop: "C17", Pkg: "zzdeliver", Func: "VerifC17Inbound", ExtraPkgs: []string{"storage/mem", "message"}, InitPkgs: []string{"storage", "storage/mem", "message"},
		Quick:    [][]int64{{1}, {2}, {3}},
		Thorough: [][]int64{{1}, {2}, {3}},
		Desc:     "BeforeMessageStored: a replacing listener's mailboxes/subject are used literally (no store-policy filtering); first answer wins; no answer => next listener",
		Bounds:   "param (number of mailboxes the hook names); symbolic: whether the first listener answers",
	})
}

func init() {
	register(Harness{
		Prop: "C02", Pkg: "server/pop3", Func: "VerifC02Retr",
		Quick:    [][]int64{{0, 0}, {3, 0}, {5, 0}, {4, 1}},
		Thorough: [][]int64{{0, 0}, {4, 0}, {8, 0}, {6, 1}, {8, 1}}, QTThorough: 400,
		Unwind:  40,
		Desc:    "POP3 RETR/TOP of a message with n symbolic source bytes through the real session loop: un-stuffed transmitted lines == source lines (CRLF/LF normalised), single terminator",
		Bounds:  "params (source length <= n, TOP instead of RETR); every byte value (NUL, CR, LF, dots, 8-bit)",
		Assumes: []string{"bufio.Scanner is a model (ScanLines semantics); its 64 KiB token limit and very long lines are outside the bounds"},
	}, Harness{
		Prop: "C02", Pkg: "server/pop3", Func: "VerifC02RetrLong",
		Quick:    [][]int64{{65536, 0}},
		Thorough: [][]int64{{4096, 0}, {4097, 0}, {65535, 0}, {65536, 0}, {65537, 1}, {70000, 0}},
		Unwind:   40,
		LoopBounds: map[string]int{
			"github.com/inbucket/inbucket/v3/pkg/zzvrf.ModelScannerScan":       150000,
			"github.com/inbucket/inbucket/v3/pkg/server/pop3.vrfLines":         150000,
			"github.com/inbucket/inbucket/v3/pkg/server/pop3.VerifC02RetrLong": 150000,
		},
		Desc:   "POP3 RETR/TOP of a message holding one line of L bytes (around bufio's 4096-byte buffer and 64 KiB token size, and beyond) between ordinary lines: every line transmitted, the long one unbroken",
		Bounds: "params (L, TOP instead of RETR); concrete content (the line is L times the letter a): a directed run — the engine executes the real code, no symbolic variable is involved (arrays of 64 Ki bytes with symbolic content are beyond the engine)",
	}, Harness{
		Prop: "C01", Pkg: "server/smtp", Func: "VerifC03Machine",
		Quick:    [][]int64{{3, 5, 0, 0}, {5, 3, 0, 1}},
		Thorough: [][]int64{{3, 6, 0, 1}, {4, 5, 0, 1}, {5, 5, 0, 1}},
		Unwind:   60,
		Desc:     "session half of C01: Deliver is called exactly once, with exactly the accepted envelope, when and only when the end of DATA is acknowledged (ghost envelope from reply codes); refused/reset/aborted transactions deliver nothing",
		Bounds:   "see C03",
	})
}
