package main

func init() {
	register(Harness{
		Prop: "C16", Pkg: "storage/mem", Func: "VerifC16Deleted",
		Quick:    [][]int64{{3, 0, 0}, {3, 1, 0}, {3, 0, 1}},
		Thorough: [][]int64{{4, 0, 0}, {4, 1, 0}, {4, 0, 1}, {3, 1, 1}, {4, 2, 2}},
		Unwind:   40,
		Desc:     "k symbolic operations (deliver / remove / purge) on mem.New with cap and/or size limit and a listener registered through extension.Host: the deleted events seen after each operation are exactly the messages the reference model lets go (remove, purge, cap eviction, size eviction), one each",
		Bounds:   "params (k operations, cap, maxkb); symbolic operation, mailbox, size from {400,700,1100}",
		Assumes:  []string{"asynchronous listeners are run to completion after each operation (Quiesce); relative order of events and 'previous invocation finished first' are schedule properties that are not explored (see DESIGN §5)"},
	})
}
