package main

func init() {
	register(Harness{
		Prop: "C16", Pkg: "storage/mem", Func: "VerifC16Deleted",
		Quick:    [][]int64{{3, 0, 0}, {3, 1, 0}, {3, 0, 1}},
		Thorough: [][]int64{{4, 0, 0}, {3, 1, 0}, {3, 0, 1}, {3, 2, 0}, {3, 0, 2}, {3, 2, 2}},
		Unwind:   40,
		Desc:     "k symbolic operations (deliver / remove / purge) on mem.New with cap and/or size limit and a listener registered through extension.Host: the deleted events seen after each operation are exactly the messages the reference model lets go (remove, purge, cap eviction, size eviction), one each",
		Bounds:   "params (k operations, cap, maxkb); symbolic operation, mailbox, size from {400,700,1100}",
		Assumes:  []string{"asynchronous listeners are run to completion after each operation (Quiesce); relative order of events and 'previous invocation finished first' are schedule properties that are not explored (see DESIGN §5)"},
	})
	register(Harness{
		Prop: "C16", Pkg: "extension", Func: "VerifC16Order",
		Quick:    [][]int64{{2, 0, 0}, {2, 1, 0}, {3, 1, 0}, {2, 0, 1}, {3, 1, 1}, {4, 0, 2}, {6, 1, 2}},
		Thorough: [][]int64{{3, 0, 0}, {4, 0, 0}, {4, 1, 0}, {3, 0, 1}, {4, 1, 1}, {4, 0, 2}, {6, 0, 2}, {5, 1, 2}, {6, 1, 2}},
		Unwind:   12,
		Desc:     "one emitter sends n stored/deleted events through the real extension.Host brokers to a listener registered under one name for both event types; every listener invocation may be held (symbolic gate per event) until a later invocation or the harness releases it: the emitter is never blocked, the listener is never re-entered, every event is seen once and in emission order (stored before deleted, deliveries in arrival order)",
		Bounds:   "params (n events <= 6, mixed: every second event is the deleted event of the message stored before it, gap g: the emitter lets the dispatch run after every g-th event); symbolic hold/no-hold per invocation; run-to-block scheduling of the dispatch goroutines otherwise",
		Assumes:  []string{"a slow or descheduled listener invocation is represented by a gate at the start of the listener; pre-emption inside the broker's own code is not explored"},
	})
	register(Harness{
		Prop: "C16", Pkg: "zzdeliver", Func: "VerifC16DeliverOrder", ExtraPkgs: []string{"storage/mem", "storage/file", "message"}, InitPkgs: []string{"storage", "storage/mem", "storage/file", "message"},
		Quick:    [][]int64{{0}, {1}},
		Thorough: [][]int64{{0}, {1}},
		Unwind:   40,
		Desc:     "events of one delivery seen by a listener registered for stored and deleted: two recipients naming one mailbox with cap 1 give stored(1), deleted(1), stored(2) in that order; when the store fails for the second recipient the delivery leaves nothing behind (C01) and the undone copy has a stored and a deleted event",
		Bounds:   "param (scenario); concrete recipients; real StoreManager.Deliver, policy, memory store, Host brokers",
	})
	register(Harness{
		Prop: "C01", Pkg: "zzdeliver", Func: "VerifC16DeliverOrder", ExtraPkgs: []string{"storage/mem", "storage/file", "message"}, InitPkgs: []string{"storage", "storage/mem", "storage/file", "message"},
		Quick:    [][]int64{{1}},
		Thorough: [][]int64{{0}, {1}},
		Unwind:   40,
		Desc:     "a delivery whose store fails for the second recipient (the session then answers 451) leaves no message in any mailbox",
		Bounds:   "param (scenario); concrete recipients; real StoreManager.Deliver, policy, memory store",
	})
}
