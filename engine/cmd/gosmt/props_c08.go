package main

func init() {
	register(Harness{
		Prop: "C08", Pkg: "storage/mem", Func: "VerifC08Limits",
		Quick:    [][]int64{{3, 2, 0, 0}, {3, 0, 1, 0}, {3, 1, 1, 0}, {3, 2, 2, 0}, {3, 3, 0, 3}},
		Thorough: [][]int64{{4, 2, 0, 0}, {3, 0, 1, 0}, {3, 1, 1, 0}, {3, 2, 2, 0}, {3, 1, 0, 0}, {3, 0, 2, 0}, {3, 1, 2, 0}, {3, 2, 1, 0}, {3, 3, 0, 3}, {3, 2, 1, 2}},
		Unwind:   40,
		Desc:     "k symbolic operations (deliver with a size from {400,700,1100} / remove oldest / purge) over two mailboxes on mem.New with a mailbox cap and/or a store size limit (real maxSizeEnforcer goroutine), compared after every operation with a reference model that evicts oldest-first",
		Bounds:   "params (k operations, cap (0 = none), maxkb (0 = none), pre: concrete prelude of that many 100-byte messages in the first mailbox); symbolic: operation, mailbox, size, which of the two oldest messages is removed",
		Assumes:  []string{"goroutines are scheduled run-to-block (the enforcer runs when the client blocks on its channels): one schedule per history; other interleavings belong to C09"},
	})
}
