package main

func init() {
	register(Harness{
		Prop: "C11", Pkg: "storage/file", Func: "VerifC11Crash", InitPkgs: []string{"storage"},
		Quick:      append(grid(rng(0, 3), []int64{1, 2}, []int64{0}, []int64{0}), [][]int64{{0, 1, 1, 0}, {0, 2, 2, 0}, {2, 1, 0, 1}, {3, 1, 0, 2}, {0, 0, 0, 2}}...),
		Thorough:   append(grid(rng(0, 3), []int64{0, 1, 2, 3}, []int64{0}, []int64{0, 1, 2}), [][]int64{{0, 1, 1, 0}, {0, 2, 2, 0}, {0, 2, 1, 0}, {0, 1, 1, 2}}...),
		Unwind:     40,
		LoopBounds: fileLoopBounds,
		Desc:       "one mutating file-store operation (deliver / mark seen / remove / purge) on a mailbox holding `pre` messages is cut at a symbolic crash point (the crash hooks before every file-system mutation and after every write) with the write, recursive removal or directory creation in flight partly done (symbolic prefix / subset / depth); a fresh Store on the directory must list and visit every mailbox without error, show the other mailbox intact, show the operation all-or-nothing with complete content, and accept new mail",
		Bounds:     "params (operation, messages already in the mailbox, mailbox cap, name set: the other mailbox is unrelated / shares the level-1 directory and lock / shares level-1 and level-2 directories); crash_at in [1,12] (more hook calls than any of these operations makes); torn index: 0..4 complete values + optional half value; torn raw file: 0..2 bytes; removal subset over <= 4 directory entries; mkdir depth 0..2; one operation interrupted per run, preceded by a concrete prelude",
		Assumes:    []string{"crash = panic raised inside the crash hook, deferred functions run (a deferred file-system mutation would be flagged by the model: VfsFreeze)", "file-system model of harness/zzvrf/vfs.go: create/truncate, write, rename (atomic), remove, mkdir are atomic steps; data written before a crash point is durable (no fsync modelling, no reordering of writes by the kernel)", "gob value boundaries as in the model; natively TearGob cuts the real stream at the same value boundary"},
	})
}
