package main

import (
	"encoding/json"
	"fmt"
	"os"
	"os/exec"
	"path/filepath"
	"sort"
	"strings"
	"sync"
	"time"

	"gosmt/sx"
)

const (
	repoDir    = "/repo"
	verifDir   = "/verif"
	harnessDir = "/verif/harness"
)

// InstResult is the outcome of one harness instance.
type InstResult struct {
	H        Harness
	Params   []int64
	Results  []sx.ObResult
	Stats    sx.DischargeStats
	ExecMs   int64
	States   int
	Merges   int
	Blocks   int
	Instrs   int
	Terms    int
	Fns      map[string]int
	Stubs    map[string]int
	Assumes  []string
	Err      string
	Spurious int
	Replays  int
	// confirmed counterexamples
	Violations  []Finding
	KnownHits   []Finding
	CoverSat    map[string]map[string]interface{}
	CoverAll    map[string]bool
	Unknowns    []string
	Unconfirmed []string
}

type Finding struct {
	Prop    string                 `json:"property"`
	Harness string                 `json:"harness"`
	Params  []int64                `json:"params"`
	Kind    string                 `json:"kind"`
	Label   string                 `json:"label"`
	Pos     string                 `json:"pos"`
	Assign  map[string]interface{} `json:"assignment"`
	KnownID string                 `json:"known_id,omitempty"`
	Native  string                 `json:"native_output,omitempty"`
}

type KnownFinding struct {
	ID       string `json:"id"`
	Status   string `json:"status"` // known | fixed
	Property string `json:"property"`
	What     string `json:"what"`
	Commit   string `json:"commit,omitempty"`
}

func loadKnown() []KnownFinding {
	data, err := os.ReadFile(filepath.Join(verifDir, "known_findings.json"))
	if err != nil {
		return nil
	}
	var f struct {
		Findings []KnownFinding `json:"findings"`
	}
	if err := json.Unmarshal(data, &f); err != nil {
		fmt.Fprintln(os.Stderr, "known_findings.json:", err)
		os.Exit(2)
	}
	return f.Findings
}

// replayer builds one native test binary per package (from /repo's working tree + overlay) and
// runs batches of concrete cases through the harness functions.
type replayer struct {
	mu    sync.Mutex
	bins  map[string]string
	tmp   string
	errs  map[string]string
	funcs map[string][]harnessSig
}

type harnessSig struct {
	Name  string
	Arity int
}

func newReplayer() *replayer {
	os.MkdirAll(filepath.Join(verifDir, "tmp"), 0o755)
	// directories left behind by runs that were killed (timeouts): remove the old ones
	if ents, err := os.ReadDir(filepath.Join(verifDir, "tmp")); err == nil {
		for _, e := range ents {
			if info, ierr := e.Info(); ierr == nil && strings.HasPrefix(e.Name(), "replay-") && time.Since(info.ModTime()) > 3*time.Hour {
				os.RemoveAll(filepath.Join(verifDir, "tmp", e.Name()))
			}
		}
	}
	tmp, err := os.MkdirTemp(filepath.Join(verifDir, "tmp"), "replay-")
	if err != nil {
		panic(err)
	}
	return &replayer{bins: map[string]string{}, errs: map[string]string{}, tmp: tmp, funcs: map[string][]harnessSig{}}
}

func (r *replayer) close() { os.RemoveAll(r.tmp) }

func pkgName(pkg string) string {
	// package clause name of /repo/pkg/<pkg>
	switch pkg {
	case "rest/client":
		return "client"
	case "server/smtp":
		return "smtp"
	case "server/pop3":
		return "pop3"
	case "server/web":
		return "web"
	case "storage/mem":
		return "mem"
	case "storage/file":
		return "file"
	case "webui/sanitize":
		return "sanitize"
	case "extension/luahost":
		return "luahost"
	}
	return filepath.Base(pkg)
}

// binary returns the path of the replay test binary for pkg, building it on first use.
func (r *replayer) binary(pkg string) (string, error) {
	r.mu.Lock()
	defer r.mu.Unlock()
	if b, ok := r.bins[pkg]; ok {
		return b, nil
	}
	if e, ok := r.errs[pkg]; ok {
		return "", fmt.Errorf("%s", e)
	}
	// generated driver
	var sb strings.Builder
	fmt.Fprintf(&sb, "package %s\n\nimport (\n\t\"encoding/json\"\n\t\"fmt\"\n\t\"os\"\n\t\"testing\"\n\n\tvrf \"%s\"\n)\n\n", pkgName(pkg), sx.VrfPkg)
	sb.WriteString("var vrfHarness = map[string]func(p []int){\n")
	for _, h := range r.funcs[pkg] {
		args := make([]string, h.Arity)
		for i := range args {
			args[i] = fmt.Sprintf("p[%d]", i)
		}
		fmt.Fprintf(&sb, "\t%q: func(p []int) { %s(%s) },\n", h.Name, h.Name, strings.Join(args, ", "))
	}
	sb.WriteString("}\n\n")
	sb.WriteString(`func TestVrfReplay(t *testing.T) {
	data, err := os.ReadFile(os.Getenv("VRF_CASES"))
	if err != nil {
		t.Fatal(err)
	}
	var cases []struct {
		ID      int
		Harness string
		Params  []int
		Assign  map[string]interface{}
	}
	if err := json.Unmarshal(data, &cases); err != nil {
		t.Fatal(err)
	}
	for _, c := range cases {
		func() {
			defer func() {
				if r := recover(); r != nil {
					if _, ok := r.(vrf.AssumeViolated); ok {
						fmt.Printf("VRF-RESULT %d assume-violated\n", c.ID)
					} else {
						fmt.Printf("VRF-RESULT %d panic %v\n", c.ID, r)
					}
				}
			}()
			fmt.Printf("VRF-START %d\n", c.ID)
			vrf.SetAssignment(c.Assign)
			vrfHarness[c.Harness](c.Params)
			fmt.Printf("VRF-RESULT %d done failed=%q covered=%q\n", c.ID, vrf.Failed(), vrf.Covered())
		}()
	}
}
`)
	drv := filepath.Join(r.tmp, strings.ReplaceAll(pkg, "/", "_")+"_replay_test.go")
	if err := os.WriteFile(drv, []byte(sb.String()), 0o644); err != nil {
		return "", err
	}
	// overlay json: harness files (incl. zzvrf) + driver
	repl := map[string]string{}
	filepath.Walk(harnessDir, func(p string, info os.FileInfo, err error) error {
		if err != nil || info.IsDir() || !strings.HasSuffix(p, ".go") {
			return nil
		}
		rel, _ := filepath.Rel(harnessDir, p)
		repl[filepath.Join(repoDir, "pkg", rel)] = p
		return nil
	})
	repl[filepath.Join(repoDir, "pkg", pkg, "zz_verif_replay_test.go")] = drv
	ovj, _ := json.Marshal(map[string]interface{}{"Replace": repl})
	ovp := filepath.Join(r.tmp, strings.ReplaceAll(pkg, "/", "_")+"_overlay.json")
	os.WriteFile(ovp, ovj, 0o644)
	bin := filepath.Join(r.tmp, strings.ReplaceAll(pkg, "/", "_")+".test")
	cmd := exec.Command("go", "test", "-c", "-vet=off", "-overlay", ovp, "-o", bin, "./pkg/"+pkg)
	cmd.Dir = repoDir
	cmd.Env = sx.GoEnv()
	out, err := cmd.CombinedOutput()
	if err != nil {
		e := fmt.Sprintf("building replay binary for %s failed: %v\n%s", pkg, err, out)
		r.errs[pkg] = e
		return "", fmt.Errorf("%s", e)
	}
	r.bins[pkg] = bin
	return bin, nil
}

type replayCase struct {
	ID      int
	Harness string
	Params  []int64
	Assign  map[string]interface{}
}

type replayOut struct {
	Status  string // done | panic | assume-violated | crash | missing
	Failed  string
	Covered string
	Text    string
}

// run executes the cases; a crash of the test binary (panic in another goroutine, fatal error)
// is attributed to the case that was running and the rest is re-run.
func (r *replayer) run(pkg string, cases []replayCase) (map[int]replayOut, error) {
	bin, err := r.binary(pkg)
	if err != nil {
		return nil, err
	}
	res := map[int]replayOut{}
	todo := cases
	for round := 0; len(todo) > 0 && round < len(cases)+1; round++ {
		f, _ := os.CreateTemp(r.tmp, "cases-*.json")
		data, _ := json.Marshal(todo)
		f.Write(data)
		f.Close()
		cmd := exec.Command(bin, "-test.run", "^TestVrfReplay$", "-test.timeout", "120s")
		cmd.Dir = filepath.Join(repoDir, "pkg", pkg)
		if _, err := os.Stat(cmd.Dir); err != nil {
			cmd.Dir = repoDir // package exists only in the overlay
		}
		cmd.Env = append(sx.GoEnv(), "VRF_CASES="+f.Name())
		out, _ := cmd.CombinedOutput()
		os.Remove(f.Name())
		started := -1
		for _, line := range strings.Split(string(out), "\n") {
			var id int
			if n, _ := fmt.Sscanf(line, "VRF-START %d", &id); n == 1 {
				started = id
				continue
			}
			if strings.HasPrefix(line, "VRF-RESULT ") {
				rest := strings.TrimPrefix(line, "VRF-RESULT ")
				fmt.Sscanf(rest, "%d", &id)
				sp := strings.SplitN(rest, " ", 3)
				ro := replayOut{Text: line}
				if len(sp) >= 2 {
					ro.Status = sp[1]
				}
				if len(sp) == 3 {
					ro.Failed = sp[2]
				}
				res[id] = ro
				started = -1
			}
		}
		if started >= 0 {
			// crashed while running case `started`
			txt := string(out)
			if len(txt) > 1500 {
				txt = txt[:1500]
			}
			res[started] = replayOut{Status: "crash", Text: txt}
		}
		var next []replayCase
		for _, c := range todo {
			if _, ok := res[c.ID]; !ok {
				next = append(next, c)
			}
		}
		if len(next) == len(todo) {
			for _, c := range next {
				res[c.ID] = replayOut{Status: "missing", Text: string(out)}
			}
			break
		}
		todo = next
	}
	return res, nil
}

// ---------- one instance ----------

func runInstance(prog *sx.Program, h Harness, params []int64, tier string, knownListed map[string]bool, rp *replayer, seed int64) (ir *InstResult) {
	ir = &InstResult{H: h, Params: params, CoverSat: map[string]map[string]interface{}{}, CoverAll: map[string]bool{}}
	defer func() {
		if r := recover(); r != nil {
			if ee, ok := r.(*sx.EngineError); ok {
				ir.Err = "engine: " + ee.Msg
				return
			}
			ir.Err = fmt.Sprintf("engine panic: %v", r)
			if os.Getenv("GOSMT_DEBUG") != "" {
				panic(r)
			}
		}
	}()
	f := prog.Func(sx.ModPath+"/pkg/"+h.Pkg, h.Func)
	if f == nil {
		ir.Err = "harness function not found: " + h.Func
		return
	}
	initPkgs := []string{sx.VrfPkg, sx.ModPath + "/pkg/" + h.Pkg}
	for _, p := range h.InitPkgs {
		initPkgs = append(initPkgs, sx.ModPath+"/pkg/"+p)
	}
	initPkgs = append(initPkgs, h.InitAbs...)
	cfg := sx.Config{InitPkgs: initPkgs, StubPkgs: stubPkgs, MaxUnwind: h.Unwind, LoopBounds: h.LoopBounds}
	// budgets: an instance that outgrows them is reported as inconclusive (broken), never as held
	cfg.MaxTerms = 6000000
	cfg.Deadline = 10 * time.Minute
	if tier == "thorough" {
		cfg.MaxTerms = 12000000
		cfg.Deadline = 40 * time.Minute
	}
	x := sx.NewExec(prog.Prog, cfg)
	x.InstallRedirects(prog)
	defer x.Close()
	var vals []sx.Value
	for _, p := range params {
		vals = append(vals, x.TB().Int64(p))
	}
	t0 := time.Now()
	x.Run(f, vals)
	ir.ExecMs = time.Since(t0).Milliseconds()
	ir.States, ir.Merges, ir.Blocks, ir.Instrs, ir.Terms = x.NStates, x.NMerges, x.NBlocks, x.NInstr, x.TB().NTerms
	ir.Fns, ir.Stubs, ir.Assumes = x.FnsExecuted, x.StubsHit, x.AssumeLog
	qt := h.QTQuick
	if tier == "thorough" && h.QTThorough > 0 {
		qt = h.QTThorough
	}
	if qt == 0 {
		qt = 60
	}
	solver := os.Getenv("GOSMT_SOLVER")
	if solver == "" {
		solver = "z3-new"
	}
	confirm := func(ob *sx.Obligation, assign map[string]interface{}) (bool, string) {
		if h.NoReplay {
			return true, "not replayed"
		}
		ir.Replays++
		out, err := rp.run(h.Pkg, []replayCase{{ID: 1, Harness: h.Func, Params: params, Assign: assign}})
		if err != nil {
			return false, err.Error()
		}
		o := out[1]
		switch ob.Kind {
		case "assert":
			if o.Status == "done" && strings.Contains(o.Failed, fmt.Sprintf("%q", ob.Label)) {
				return true, o.Text
			}
		case "panic", "deadlock":
			if o.Status == "panic" || o.Status == "crash" {
				return true, o.Text
			}
		case "cover":
			if os.Getenv("GOSMT_AUDIT") != "" && o.Status == "done" && !strings.Contains(o.Failed, "failed=[]") {
				// audit aid: a cover witness whose native run fails assertions (expected only for
				// witnesses inside a known-finding class)
				fmt.Fprintf(os.Stderr, "AUDIT native-failures %s%v cover=%s %s\n", h.Func, params, ob.Label, o.Failed)
			}
			if o.Status == "done" && strings.Contains(o.Text, fmt.Sprintf("%q", ob.Label)) {
				return true, o.Text
			}
		}
		return false, o.Text
	}
	res, st, err := x.DischargeConfirm(solver, time.Duration(qt)*time.Second, knownListed, confirm, 6)
	ir.Stats = st
	if err != nil {
		ir.Err = "solver: " + err.Error()
		return
	}
	ir.Results = res
	for _, r := range res {
		lab := r.Ob.Kind + ":" + r.Ob.Label
		switch {
		case r.Ob.Kind == "cover":
			ir.CoverAll[r.Ob.Label] = true
			if r.Res == sx.Sat && r.Confirmed {
				if _, ok := ir.CoverSat[r.Ob.Label]; !ok {
					ir.CoverSat[r.Ob.Label] = r.Assign
				}
			}
			if r.Res == sx.Unknown {
				ir.Unknowns = append(ir.Unknowns, lab)
			}
			if r.Res == sx.Sat && !r.Confirmed {
				ir.Unconfirmed = append(ir.Unconfirmed, lab+" native: "+r.Native)
			}
		case r.Res == sx.Unknown:
			ir.Unknowns = append(ir.Unknowns, lab+" @ "+r.Ob.Pos)
		case r.Res == sx.Sat:
			fd := Finding{Prop: h.Prop, Harness: h.Func, Params: params, Kind: r.Ob.Kind, Label: r.Ob.Label, Pos: r.Ob.Pos, Assign: r.Assign, KnownID: r.KnownID, Native: r.Native}
			if r.Ob.Kind == "unwind" || r.Ob.Kind == "escape" {
				ir.Unknowns = append(ir.Unknowns, "bound insufficient: "+lab+" @ "+r.Ob.Pos)
				continue
			}
			if !r.Confirmed {
				ir.Unconfirmed = append(ir.Unconfirmed, lab+" @ "+r.Ob.Pos+" inputs: "+renderAssign(r.Assign)+" native: "+r.Native)
				continue
			}
			if r.KnownID != "" {
				ir.KnownHits = append(ir.KnownHits, fd)
			} else {
				ir.Violations = append(ir.Violations, fd)
			}
		}
		ir.Spurious += r.Spurious
	}
	return ir
}

// ---------- check command ----------

func cmdCheck(prop, tier string) int {
	t0 := time.Now()
	hs := harnessesFor(prop)
	if len(hs) == 0 {
		fmt.Printf("no harness registered for %s\n", prop)
		return 2
	}
	seed := int64(0)
	if s := os.Getenv("VERIF_SEED"); s != "" {
		fmt.Sscanf(s, "%d", &seed)
	}
	known := loadKnown()
	knownListed := map[string]bool{}
	knownWhat := map[string]string{}
	for _, k := range known {
		if k.Property == prop && k.Status == "known" {
			knownListed[k.ID] = true
			knownWhat[k.ID] = k.What
		}
	}
	// load
	pkgset := map[string]bool{"./pkg/zzvrf": true}
	rp := newReplayer()
	defer rp.close()
	for _, h := range hs {
		pkgset["./pkg/"+h.Pkg] = true
		for _, e := range h.ExtraPkgs {
			pkgset["./pkg/"+e] = true
		}
	}
	var patterns []string
	for p := range pkgset {
		patterns = append(patterns, p)
	}
	sort.Strings(patterns)
	ov, err := sx.BuildOverlay(harnessDir, repoDir, false)
	if err != nil {
		fmt.Println("overlay:", err)
		return 2
	}
	prog, err := sx.Load(repoDir, ov, patterns)
	if err != nil {
		fmt.Println("BROKEN: " + err.Error())
		return 2
	}
	loadMs := time.Since(t0).Milliseconds()
	// native harness table for the replayer: every Verif* function of the harness packages
	for p := range pkgset {
		dir := strings.TrimPrefix(p, "./pkg/")
		sp := prog.Pkgs[sx.ModPath+"/pkg/"+dir]
		if sp == nil {
			continue
		}
		for name, m := range sp.Members {
			if !strings.HasPrefix(name, "Verif") {
				continue
			}
			if fn := sp.Func(name); fn != nil && m != nil {
				rp.funcs[dir] = append(rp.funcs[dir], harnessSig{Name: name, Arity: len(fn.Params)})
			}
		}
		sort.Slice(rp.funcs[dir], func(i, j int) bool { return rp.funcs[dir][i].Name < rp.funcs[dir][j].Name })
	}
	type job struct {
		h Harness
		p []int64
	}
	var jobs []job
	for _, h := range hs {
		g := h.Quick
		if tier == "thorough" && len(h.Thorough) > 0 {
			g = h.Thorough
		}
		for _, p := range g {
			jobs = append(jobs, job{h, p})
		}
	}
	workers := 12
	if w := os.Getenv("GOSMT_WORKERS"); w != "" {
		fmt.Sscanf(w, "%d", &workers)
	}
	results := make([]*InstResult, len(jobs))
	var wg sync.WaitGroup
	ch := make(chan int)
	for w := 0; w < workers; w++ {
		wg.Add(1)
		go func() {
			defer wg.Done()
			for i := range ch {
				j := jobs[i]
				ti := time.Now()
				results[i] = runInstance(prog, j.h, j.p, tier, knownListed, rp, seed)
				if os.Getenv("GOSMT_VERBOSE") != "" {
					r := results[i]
					fmt.Printf("  %s%v: exec %dms, %d queries %dms solver, states=%d terms=%d err=%q viol=%d known=%d unk=%d unconf=%d (%.1fs)\n", j.h.Func, j.p, r.ExecMs, r.Stats.Queries, r.Stats.SolverMs, r.States, r.Terms, r.Err, len(r.Violations), len(r.KnownHits), len(r.Unknowns), len(r.Unconfirmed), time.Since(ti).Seconds())
				}
			}
		}()
	}
	for i := range jobs {
		ch <- i
	}
	close(ch)
	wg.Wait()
	return report(prop, tier, seed, hs, results, knownListed, knownWhat, loadMs, t0)
}

func report(prop, tier string, seed int64, hs []Harness, results []*InstResult, knownListed map[string]bool, knownWhat map[string]string, loadMs int64, t0 time.Time) int {
	exit := 0
	broken := []string{}
	var violations, knownHits []Finding
	coverSeen := map[string]bool{}
	coverSat := map[string]map[string]interface{}{}
	coverParams := map[string][]int64{}
	var samples []interface{}
	tot := struct {
		Queries, Distinct, States, Merges, Blocks, Instrs, Terms, Oblig, Discharged, Replays, Spurious int
		SolverMs, ExecMs                                                                               int64
	}{}
	fns := map[string]int{}
	stubs := map[string]int{}
	assumes := map[string]bool{}
	perHarness := map[string]map[string]interface{}{}
	for _, r := range results {
		key := r.H.Func
		if r.Err != "" {
			broken = append(broken, fmt.Sprintf("%s%v: %s", key, r.Params, r.Err))
			continue
		}
		for _, u := range r.Unknowns {
			broken = append(broken, fmt.Sprintf("%s%v: undecided: %s", key, r.Params, u))
		}
		for _, u := range r.Unconfirmed {
			broken = append(broken, fmt.Sprintf("%s%v: solver model did not reproduce natively (encoding/stub artefact): %s", key, r.Params, u))
		}
		violations = append(violations, r.Violations...)
		knownHits = append(knownHits, r.KnownHits...)
		for l := range r.CoverAll {
			coverSeen[key+"/"+l] = true
		}
		for l, a := range r.CoverSat {
			if _, ok := coverSat[key+"/"+l]; !ok {
				coverSat[key+"/"+l] = a
				coverParams[key+"/"+l] = r.Params
			}
		}
		tot.Queries += r.Stats.Queries
		tot.Distinct += r.Stats.Distinct
		tot.SolverMs += r.Stats.SolverMs
		tot.ExecMs += r.ExecMs
		tot.States += r.States
		tot.Merges += r.Merges
		tot.Blocks += r.Blocks
		tot.Instrs += r.Instrs
		tot.Terms += r.Terms
		tot.Replays += r.Replays
		tot.Spurious += r.Spurious
		for _, q := range r.Results {
			if q.Ob.Kind != "cover" && q.KnownID == "" {
				tot.Oblig++
				if q.Res == sx.Unsat {
					tot.Discharged++
				}
			}
		}
		for k, v := range r.Fns {
			fns[k] += v
		}
		for k, v := range r.Stubs {
			stubs[k] += v
		}
		for _, a := range r.Assumes {
			assumes[a] = true
		}
		ph := perHarness[key]
		if ph == nil {
			ph = map[string]interface{}{"instances": 0, "desc": r.H.Desc, "bounds": r.H.Bounds}
			perHarness[key] = ph
		}
		ph["instances"] = ph["instances"].(int) + 1
	}
	// vacuity: every cover label must be satisfiable (and natively reached) in some instance
	var labels []string
	for l := range coverSeen {
		labels = append(labels, l)
	}
	sort.Strings(labels)
	for _, l := range labels {
		if a, ok := coverSat[l]; ok {
			if len(samples) < 12 {
				samples = append(samples, map[string]interface{}{"cover": l, "params": coverParams[l], "inputs": renderAssign(a)})
			}
		} else {
			broken = append(broken, "vacuous: cover point never satisfiable: "+l)
		}
	}
	if len(labels) == 0 {
		broken = append(broken, "no cover point reached by any instance")
	}
	// findings
	os.MkdirAll(filepath.Join(verifDir, "replays", prop), 0o755)
	seenK := map[string]bool{}
	for _, k := range knownHits {
		if !seenK[k.KnownID] {
			seenK[k.KnownID] = true
			fmt.Printf("KNOWN-FINDING: property=%s %s [%s; e.g. %s%v %s]\n", prop, knownWhat[k.KnownID], k.KnownID, k.Harness, k.Params, renderAssign(k.Assign))
		}
	}
	seenV := map[string]bool{}
	nviol := 0
	for _, v := range violations {
		sig := v.Harness + "/" + v.Kind + "/" + v.Label + "/" + v.Pos
		if seenV[sig] {
			continue
		}
		seenV[sig] = true
		nviol++
		path := filepath.Join(verifDir, "replays", prop, fmt.Sprintf("%s-%d.json", v.Harness, nviol))
		data, _ := json.MarshalIndent(v, "", " ")
		os.WriteFile(path, data, 0o644)
		fmt.Printf("VIOLATION property=%s replay=%s\n", prop, path)
		fmt.Printf("  %s %q in %s%v at %s\n  inputs: %s\n", v.Kind, v.Label, v.Harness, v.Params, v.Pos, renderAssign(v.Assign))
		if len(samples) < 16 {
			samples = append(samples, map[string]interface{}{"violation": v.Label, "harness": v.Harness, "params": v.Params, "inputs": renderAssign(v.Assign)})
		}
		exit = 1
	}
	for _, b := range broken {
		fmt.Println("BROKEN:", b)
	}
	if len(broken) > 0 && exit == 0 {
		exit = 2
	}
	writeEvidence(prop, tier, seed, hs, results, perHarness, samples, fns, stubs, assumes, tot.Queries, tot.Distinct, tot.States, tot.Blocks, tot.Replays, tot.Oblig, tot.Discharged, tot.SolverMs, tot.ExecMs, tot.Merges, tot.Terms, tot.Spurious, nviol, len(seenK), broken, loadMs, time.Since(t0).Seconds())
	fmt.Printf("%s %s: instances=%d obligations=%d discharged=%d queries=%d solver=%.1fs exec=%.1fs wall=%.1fs violations=%d known=%d broken=%d\n", prop, tier, len(results), tot.Oblig, tot.Discharged, tot.Queries, float64(tot.SolverMs)/1000, float64(tot.ExecMs)/1000, time.Since(t0).Seconds(), nviol, len(seenK), len(broken))
	return exit
}

func renderAssign(a map[string]interface{}) string {
	var keys []string
	for k := range a {
		keys = append(keys, k)
	}
	sort.Strings(keys)
	var parts []string
	for _, k := range keys {
		switch v := a[k].(type) {
		case []int:
			b := make([]byte, len(v))
			for i := range v {
				b[i] = byte(v[i])
			}
			parts = append(parts, fmt.Sprintf("%s=%q", k, string(b)))
		default:
			parts = append(parts, fmt.Sprintf("%s=%v", k, v))
		}
	}
	return strings.Join(parts, " ")
}
