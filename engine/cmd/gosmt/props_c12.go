package main

func init() {
	register(Harness{
		Prop: "C12", Pkg: "zzc12", Func: "VerifC12Scan", ExtraPkgs: []string{"storage", "storage/mem"},
		InitPkgs: []string{"storage", "storage/mem"},
		Quick:    [][]int64{{1, 0, 0}, {2, 1, 0}, {3, 2, 0}, {2, 2, 1}, {3, 0, 2}},
		Thorough: [][]int64{{1, 0, 0}, {2, 1, 0}, {3, 2, 0}, {3, 3, 0}, {4, 2, 0}, {2, 2, 1}, {3, 2, 1}, {3, 0, 2}, {3, 2, 2}},
		Unwind:   30,
		Desc:     "RetentionScanner.DoScan over the real memory store with m1+m2 messages of symbolic age in two mailboxes, symbolic retention period and symbolic non-decreasing clock: older than (clock before scan - period) => removed, younger than (clock after scan - period) => retained in order",
		Bounds:   "params (messages in mailbox a, in mailbox b, race 1: a fresh delivery lands in each mailbox between the scanner's snapshot and its removals; race 2: a client removes the first message of the mailbox at that point); symbolic 64-bit ages within +-2000 h, period within +-1000 h, clock readings",
		Assumes:  []string{"time.Time is modelled as int64 nanoseconds (all Time methods used are engine intrinsics over that model)", "memory store only; the racing delivery is placed at one point (after the snapshot of its mailbox), other interleavings are not explored"},
	}, Harness{
		Prop: "C12", Pkg: "zzc12", Func: "VerifC12Start", ExtraPkgs: []string{"storage", "storage/mem"},
		InitPkgs: []string{"storage", "storage/mem"},
		Quick:    [][]int64{{0}, {1}, {2}, {3}},
		Thorough: [][]int64{{0}, {1}, {2}, {3}, {4}, {5}},
		Unwind:   12,
		Desc:     "RetentionScanner.Start/Join with a context cancelled at the cancelAt-th observation: disabled when period <= 0; otherwise the loop exits and Join returns",
		Bounds:   "param cancelAt (which look at ctx.Done() sees the cancellation); symbolic period and clock; select between a ready timer and a ready Done channel is a symbolic choice",
	})
}
