package main

import (
	"encoding/json"
	"fmt"
	"os"
	"path/filepath"
	"sort"
	"strings"
)

func writeEvidence(prop, tier string, seed int64, hs []Harness, results []*InstResult, perHarness map[string]map[string]interface{}, samples []interface{},
	fns, stubs map[string]int, assumes map[string]bool, queries, distinct, states, blocks, replays, oblig, discharged int, solverMs, execMs int64,
	merges, terms, spurious, nviol, nknown int, broken []string, loadMs int64, wall float64) {
	var fnList []string
	for f := range fns {
		if strings.Contains(f, "inbucket/inbucket") && !strings.Contains(f, "/zzvrf.") && !strings.Contains(f, ".Verif") {
			fnList = append(fnList, strings.ReplaceAll(f, "github.com/inbucket/inbucket/v3/pkg/", ""))
		}
	}
	sort.Strings(fnList)
	var stubList []string
	for s := range stubs {
		stubList = append(stubList, s)
	}
	sort.Strings(stubList)
	if len(stubList) > 60 {
		stubList = append(stubList[:60], fmt.Sprintf("... %d more", len(stubList)-60))
	}
	var assumeList []string
	for _, h := range hs {
		assumeList = append(assumeList, h.Assumes...)
	}
	for a := range assumes {
		assumeList = append(assumeList, "Assume at "+a)
	}
	sort.Strings(assumeList)
	assumeList = append(assumeList,
		"bounded claim: holds for all values of the symbolic inputs within the stated bounds only; nothing is claimed outside them",
		"engine intrinsics (strings.*, strconv.*, fmt.Sprintf, bytes.Buffer, maps, slices) implement Go semantics exactly on the stated domains; escape obligations guard the rest",
		"solver: z3 5.1.0 (z3-new) over QF_BV; unknown/timeout is never counted as success")
	var bounds []string
	var hnames []string
	for k := range perHarness {
		hnames = append(hnames, k)
	}
	sort.Strings(hnames)
	for _, k := range hnames {
		bounds = append(bounds, fmt.Sprintf("%s: %v — %v (%d instances)", k, perHarness[k]["desc"], perHarness[k]["bounds"], perHarness[k]["instances"]))
	}
	if len(samples) == 0 {
		samples = append(samples, "no sample available (run broken)")
	}
	distinctNT := distinct
	ev := map[string]interface{}{
		"property_id": prop,
		"tier":        tier,
		"seed":        seed,
		"level":       "model_checking",
		"wall_s":      wall,
		"violations":  nviol,
		"assumptions": assumeList,
		"coverage": map[string]interface{}{
			"states":                        states,
			"transitions":                   blocks,
			"traces_validated_against_impl": replays,
			"samples":                       samples,
			"evaluations":                   queries,
			"distinct_nontrivial":           distinctNT,
			"rule":                          "one evaluation = one SMT query (path-guard ∧ ¬assertion, or a cover/unwinding/escape/panic obligation) over all values of the symbolic inputs of a harness instance; distinct_nontrivial counts queries with distinct (kind,label,position,formula) whose guard was not syntactically false; states = symbolic states created by the executor, transitions = SSA basic blocks executed; traces_validated = solver models replayed natively against the compiled real code (cover witnesses and counterexamples)",
			"obligations":                   oblig,
			"discharged":                    discharged,
			"harnesses":                     bounds,
			"functions_encoded":             fnList,
			"stubs_and_intrinsics_hit":      stubList,
			"solver_ms":                     solverMs,
			"symbolic_exec_ms":              execMs,
			"load_ms":                       loadMs,
			"merges":                        merges,
			"terms":                         terms,
			"spurious_models_blocked":       spurious,
			"known_findings_reproduced":     nknown,
			"broken":                        broken,
			"instances":                     len(results),
			"exhaustive":                    false,
			"checker_cmd":                   "z3-new -in (QF_BV, incremental push/pop)",
		},
	}
	os.MkdirAll(filepath.Join(verifDir, "evidence"), 0o755)
	data, _ := json.MarshalIndent(ev, "", " ")
	os.WriteFile(filepath.Join(verifDir, "evidence", prop+".json"), data, 0o644)
}
