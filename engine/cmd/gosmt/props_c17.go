package main

func init() {
	register(Harness{
		Prop: "C17", Pkg: "server/smtp", Func: "VerifC17Hooks",
		Quick:    grid(rng(0, 1), rng(0, 1)),
		Thorough: grid(rng(0, 1), rng(0, 1)),
		Desc:     "real session with two listeners on BeforeMailFromAccepted and BeforeRcptToAccepted registered through the real EventBroker; each answers nil/defer/allow/deny(code) symbolically; replies compared with the literal table of the property; the recipient limit still applies",
		Bounds:   "params (sender domain on the reject-origin list?, recipient domain on the reject list?); 4^4 answer combinations, deny codes 400..599",
		Assumes:  []string{"the Lua VM is outside the encoding: hooks are Go listeners returning arbitrary answers (what luahost hands to the broker after unwrapping)"},
	})
}
