package main

func init() {
	register(Harness{
		Prop: "C03", Pkg: "server/smtp", Func: "VerifC03Machine",
		Quick:    [][]int64{{0, 3, 1, 0}, {0, 4, 0, 0}, {3, 5, 0, 0}, {4, 3, 0, 1}, {5, 3, 0, 1}},
		Thorough: [][]int64{{0, 4, 1, 1}, {0, 6, 0, 1}, {1, 4, 1, 0}, {3, 6, 0, 1}, {3, 4, 1, 1}, {4, 5, 0, 1}, {5, 5, 0, 1}, {2, 5, 1, 0}},
		Unwind:   60,
		Desc:     "real smtp.startSession loop over k scripted client steps from a menu of valid/out-of-order/garbled lines, then EOF; ghost automaton on reply codes",
		Bounds:   "params (concrete prelude number, k symbolic steps, full menu?, cut last step?); symbolic: line selectors, store failure, MaxRecipients in {1,2}, DefaultAccept, cut position",
		Assumes:  []string{"textproto.Conn modelled by zzvrf.Model* over a scripted connection (natively: real textproto over the same in-memory conn)", "menu lines are concrete: the MAIL argument grammar (regexp) is evaluated on concrete lines only"},
	})
}
