package main

func init() {
	register(Harness{
		Prop: "C03", Pkg: "server/smtp", Func: "VerifC03Machine",
		Quick:    [][]int64{{3, 1, 0}, {5, 0, 0}, {4, 0, 1}},
		Thorough: [][]int64{{4, 1, 1}, {7, 0, 1}, {5, 1, 0}},
		Unwind:   60,
		Desc:     "real smtp.startSession loop over k scripted client steps from a menu of valid/out-of-order/garbled lines, then EOF; ghost automaton on reply codes",
		Bounds:   "params (k steps, full menu?, cut last step?); symbolic: line selectors, store failure, MaxRecipients in {1,2}, DefaultAccept, cut position",
		Assumes:  []string{"textproto.Conn modelled by zzvrf.Model* over a scripted connection (natively: real textproto over the same in-memory conn)", "menu lines are concrete: the MAIL argument grammar (regexp) is evaluated on concrete lines only"},
	})
}
