package main

func init() {
	register(Harness{
		Prop: "C19", Pkg: "server/smtp", Func: "VerifC19Drain",
		Quick:    [][]int64{{}},
		Thorough: [][]int64{{}},
		Unwind:   40,
		Desc:     "real smtp serve loop + session over a scripted listener/connection; the session can be held (symbolic gates) at its very start and between DATA and the body while shutdown is requested and Drain is called; Drain must wait for the session, the message in progress is stored and acknowledged",
		Bounds:   "one connection, a six-step dialogue; schedules: the symbolic gate inputs (hold the session at start / mid-DATA or not) on top of run-to-block scheduling",
		Assumes:  []string{"schedule exploration is limited to harness-placed gates; real sockets, timedExit and the web server are outside"},
	}, Harness{
		Prop: "C19", Pkg: "server/smtp", Func: "VerifC19DrainN",
		Quick:    [][]int64{{2}},
		Thorough: [][]int64{{2}, {3}},
		Unwind:   40,
		Desc:     "n SMTP connections accepted before shutdown, each session with its own start / mid-DATA gates: Drain returns only after all sessions have ended, every message in progress is stored and acknowledged",
		Bounds:   "param n (2, thorough 3) connections; 2n symbolic gate inputs on top of run-to-block scheduling",
	}, Harness{
		Prop: "C19", Pkg: "server/pop3", Func: "VerifC19Drain",
		Quick:    [][]int64{{}},
		Thorough: [][]int64{{}},
		Unwind:   40,
		Desc:     "real pop3 serve loop + session held (gates) at its start / before QUIT while shutdown is requested: Drain waits, pending deletions are applied on QUIT",
		Bounds:   "one connection, USER/PASS/DELE/QUIT; symbolic gate inputs",
	}, Harness{
		Prop: "C19", Pkg: "msghub", Func: "VerifC19Hub",
		Quick:    [][]int64{{0}, {2}},
		Thorough: [][]int64{{0}, {1}, {3}},
		Unwind:   40,
		Desc:     "Hub.Start returns after cancel; stored/deleted events emitted afterwards (stores still draining) neither panic on a bare goroutine nor deadlock",
		Bounds:   "param (number of late events)",
	})
}
