#!/usr/bin/env python3
"""Regenerates /verif/MANIFEST.json from the table below (checks) and the list of unclaimed properties."""
import json

SETUP = "cd /verif/engine && GOFLAGS=-mod=mod GOPROXY=off GOSUMDB=off GOTOOLCHAIN=local go build -o /verif/bin/gosmt ./cmd/gosmt"
TECH = "bounded symbolic execution of the real code from go/ssa (state merging, loop unwinding with unwinding obligations) -> SMT-LIB2 QF_BV, decided by z3 5.1; counterexamples replayed natively"

CHECKS = {
 "C03": ("real smtp.startSession loop over scripted sessions (concrete prelude + k symbolic menu steps, optional disconnect at any byte of the last line/body); ghost automaton over reply codes; deliveries compared with the ghost envelope; no-panic and unwinding obligations",
         "bounded: <= 5 symbolic steps after a prelude (thorough 6), menu of 30 concrete client lines; textproto/bufio are models validated by native replay; the MAIL argument regexp is evaluated on concrete lines; TLS, real sockets, timeouts, pipelined input and resource exhaustion are outside the claim", "4 C03"),
 "C04": ("policy naming functions executed symbolically on every address of a given length (all 256 byte values): non-empty, fixed point, equals ExtractMailbox(addr), case- and +ext-independence, RCPT trimming; the genuine defects found (empty / dotted base name, domain case, address-literal spelling, POP3 mailbox name) were all repaired",
         "bounded: address length <= 6 quick / 12 thorough per naming mode; net.ParseIP is an uninterpreted function with necessary conditions (non-reproducing models are blocked and re-queried); REST/web handlers' use of MailboxForAddress is checked under C14", "4 C04"),
 "C05": ("accept/store/origin decisions vs reference predicates with lists loaded through the real config.Process; MatchWithWildcards vs a reference matcher; recipient limit asserted in the C03 session harness",
         "bounded: lists of <= 2 (thorough 3) entries of <= 3 (4) bytes, domains <= 3 (5) bytes, patterns/subjects <= 4 (6/7) bytes; envconfig modelled as 'fills the struct with arbitrary values' (natively: real environment variables)", "4 C05"),
 "C06": ("real SMTP session with symbolic MaxMessageBytes, symbolic declared SIZE digits and a length-only body of symbolic length: refusal iff over the limit, nothing delivered when refused, session usable afterwards",
         "lengths are 64-bit bit-vectors constrained to [0,70000] (limit [0,60000]) so that counterexamples can be replayed; SIZE of 0..6 digits; body content is never inspected", "4 C06"),
}

CHECKS.update({
 "C07": ("k symbolic store operations (deliver/get/mark-seen/remove/purge/visit/list, ids from a menu incl. missing, 'latest', empty) on a fresh mem.New store compared after every step with an ordered-list reference model (ids never reused, content/size/seen read back, missing => ErrNotExist); paths with the same store shape are merged, other shapes are explored separately",
         "both back-ends refine the same reference model: memory store k <= 4 operations; file store (over the file-system model, see C10) k <= 2 (thorough 3) operations; two mailboxes, bodies of 1..3 bytes", "4 C07"),
 "C08": ("k symbolic operations (deliver with sizes from a menu, remove, purge) on mem.New with a mailbox cap and/or a store size limit — the real maxSizeEnforcer goroutine and its channels are executed — compared after every step with a reference that evicts oldest-first; stored bytes <= limit; a fitting new message is retrievable at once",
         "memory store only (file-store cap loop not covered); goroutines scheduled run-to-block (one schedule per history; other interleavings are C09); k <= 4 (thorough 5), sizes {400,700,1100}, cap in {0,1,2}, limit in {0,1,2} KiB", "4 C08"),
 "C13": ("real pop3.startSession loop over scripted sessions (optional USER/PASS prelude + k symbolic menu steps, then EOF / idle timeout / network error); ghost POP3 model: status indicators, RFC 1939 data fields of STAT/LIST/UIDL, snapshot stability while the store changes behind the session, deletions committed exactly on QUIT",
         "bounded: <= 4 symbolic steps (thorough 6), mailbox of <= 3 messages, numeric arguments from the menu; bufio/fmt.Fprint/bufio.Scanner are models validated by native replay; STLS/TLS and RETR content (C02) outside", "4 C13"),
})

CHECKS.update({
 "C01": ("two halves at the message.Manager.Deliver interface: (1) the real SMTP session loop delivers exactly the envelope accepted since the last MAIL, once, exactly when the end of DATA is acknowledged (ghost envelope from reply codes); (2) the real StoreManager.Deliver + policy + memory store or file store (file-system model) give each eligible accepted recipient exactly one new message with sender/To/subject/size, nothing else changes",
         "both back-ends (file store over the file-system model, fewer instances); recipients from a menu of 5 addresses (duplicates by case/+ext, discard-listed domain), <= 3 recipients, 3 naming modes; enmime header decoding is a model; session half bounded as C03", "4 C01"),
 "C02": ("byte-exact content: Deliver -> mem.AddMessage or file.AddMessage (file-system model) -> Source()/Size() equals Return-Path + Received + body for every body of <= n symbolic bytes (all 256 values); REST and web UI source handlers write exactly Source(); POP3 RETR/TOP re-stuffs and CRLF-normalises line by line so that un-stuffing gives the source back",
         "bodies <= 3 (thorough 10) bytes, POP3 sources <= 5 (8) bytes ending in LF (the shape textproto.ReadDotBytes produces); bufio.Scanner (with its token-size limit), textproto and io.Copy are models; one concrete long-line scenario (lines of 4096..70000 bytes) is executed as a directed run; MiB bodies are outside the claim", "4 C02"),
 "C12": ("RetentionScanner.DoScan over the real memory store with symbolic message ages, period and a symbolic non-decreasing clock: expired => removed, young => retained in order, a delivery landing between the scanner's snapshot and its removals survives; Start/Join with cancellation at the n-th observation point: disabled for period <= 0, loop exits, no further mailbox visited",
         "memory back-end for the symbolic-age scan (<= 5 (6) messages in two mailboxes); file back-end: retention scan and stop-when-told visitor inside the C10 history harness; time.Time modelled as int64 nanoseconds; timers fire only when nothing else is ready (a closed Done wins over a pending timer)", "4 C12"),
 "C14": ("each REST v1 handler and web UI handler over the real StoreManager + memory store: status <=> existence for every name alias / id, payload and effects equal the store; the Go client's requests (real net/url + net/http request construction) match the server's route table incl. the body mark-seen requires; escaping round trip for all short ASCII names",
         "gorilla/mux, net/http serving, encoding/json and enmime are models (handlers are called with extracted route variables); memory back-end; one request per pre-state of <= 2 (3) messages; client names from a menu of 9 URL-hostile names; base path prefixing outside", "4 C14"),
 "C16": ("deleted events: k symbolic operations on mem.New (cap / size limit) and on file.New (file-system model) with a listener registered through extension.Host — the events seen are exactly the departures of the reference model, one each; stored events: one per message stored by StoreManager.Deliver; ordering: n events through the real Host brokers to a listener whose invocations can each be held at a symbolic gate — never re-entered, emission order (stored before deleted), emitter never blocked",
         "count/identity on both back-ends (file store via the C10 history harness); ordering: VerifC16Order holds each listener invocation at a symbolic gate (slow listener / any relative scheduling of the dispatch goroutines): never re-entered, emission order, emitter never blocked; pre-emption inside the broker's own code is not explored", "4 C16"),
 "C17": ("before-hooks honoured literally: two listeners per event registered through the real EventBroker answer nil/defer/allow/deny(code) symbolically; MAIL/RCPT replies, first-answer-wins, policy fallback, recipient limit; BeforeMessageStored replacement used literally by Deliver",
         "the gopher-lua VM is outside the encoding: listeners are Go closures standing for what luahost hands to the broker; Lua error handling, statePool concurrency and 'wrong kind of value' are not decided", "4 C17"),
})

CHECKS.update({
 "C09": ("a delivery racing with the removal of the same message on the memory store (with and without the size enforcer goroutine), explored under run-to-block scheduling plus a bounded number of pre-emptions inserted before channel sends and mutex acquisitions: no panic in any goroutine, no deadlock, presence <=> not removed, store usable afterwards, ids unique",
         "context-bounded (<= 2, thorough 3 pre-emptions), 3 client goroutines + enforcer, one race scenario; goroutines are atomic between visible operations, so Go-memory-model data races are NOT detected (no race detector in this technique); file store locking not covered (no FS model); schedule counterexamples are confirmed natively by repetition", "4 C09"),
 "C15": ("real msghub.Hub with its Start loop and real msgListenerV2 monitors: k symbolic actions (store in two mailboxes, delete, monitors joining with/without filter, a client reading, a monitor disconnecting with events buffered); each monitor's queue == retained history + later events for its filter, once, in order; a disconnected monitor is dropped",
         "k <= 3 (thorough 4) actions, history length 0..3; the hub goroutine runs whenever the harness waits (one schedule per action sequence); filling the 100-slot buffers (a slow listener stalling the hub) is outside the bound; WebSocket I/O is represented by the channel operations WSReader/WSWriter perform", "4 C15"),
 "C19": ("real SMTP and POP3 accept loops + sessions over a scripted listener; symbolic gates hold the session at its start / mid-DATA / before QUIT while shutdown is requested and Drain is called: Drain waits, the message in progress is stored and acknowledged, POP3 deletions are applied, nothing is accepted after close; Hub.Start returns on cancel and late events neither panic nor deadlock; scanner Start/Join is C12",
         "one connection per server, schedule choices limited to the harness-placed gates on top of run-to-block; real sockets, timedExit, the web server and cmd/inbucket wiring are outside", "4 C19"),
})

CHECKS.update({
 "C10": ("k symbolic operations on the real file store (file.New) executed over a Go-written file-system model (os, bufio.Writer, encoding/gob, crypto/sha1 redirected): deliver, get, mark seen, remove, purge, visit, retention scan and reopen (a new Store on the same path, any number of times); after every step each mailbox equals a reference model in ids, order, metadata, seen flags, sizes and content; ids never reused; counterexamples replayed on a real temporary directory",
         "bounded: k <= 2 (thorough 3) operations after an optional concrete prelude, two mailboxes, 2-byte bodies, cap 0..2; gob round trip = deep copy of exported fields (validated by native replay of every cover point and counterexample); restart = id generator restarted as by package initialisation + new Store object; two processes sharing a directory at the same time are outside the claim", "4 C10"),
 "C11": ("one mutating file-store operation cut at a symbolic crash point (crash hooks before every file-system mutation and after every write, tag verif) with the write / recursive removal / directory creation in flight partly done (symbolic prefix, subset, depth); a fresh Store on the directory lists and visits every mailbox without error, other mailboxes intact, the operation all-or-nothing with complete content, new mail accepted; replayed natively with the same hooks on a real directory",
         "bounded: one interrupted operation (deliver / mark seen / remove / purge) after a concrete prelude of 0..3 messages, cap 0..2; atomic steps = create/truncate, write, rename, remove, mkdir; data written before the crash point is durable and ordered (no fsync / write-reordering model); crash = panic in the hook, so deferred file-system mutations (none exist) would run", "4 C11"),
})

NOT_APPLICABLE = {
 "C18": "the property is carried by bluemonday and two third-party tokenizers that cannot be encoded; inbucket's glue only sees their token streams, and counterexamples over arbitrary token streams cannot be replayed natively — see DESIGN.md §5",
}

def main():
    props = [json.loads(l) for l in open('/verif/properties.jsonl')]
    checks = []
    for p in props:
        pid = p['id']
        if pid not in CHECKS:
            continue
        text, note, ref = CHECKS[pid]
        checks.append({
            "property_id": pid,
            "quick_cmd": f"/verif/bin/gosmt check {pid} --tier quick",
            "thorough_cmd": f"/verif/bin/gosmt check {pid} --tier thorough",
            "evidence_file": f"/verif/evidence/{pid}.json",
            "engine": "gosmt",
            "level_claimed": {"category": "model_checking", "text": text, "design_ref": "DESIGN.md §" + ref},
            "level_note": note,
            "technique": TECH,
        })
    na = []
    for p in props:
        if p['id'] not in CHECKS:
            na.append({"property_id": p['id'], "reason": NOT_APPLICABLE.get(p['id'], "check not built yet in this session (solver-based harness pending); nothing is claimed")})
    m = {
        "version": 1,
        "setup_cmd": SETUP,
        "hooks": {
            "guard": "verif",
            "enable": "the engine loads and replays /repo with GOFLAGS=-tags=verif (engine/sx/load.go GoEnv); the only guarded code is pkg/storage/file/crashpoint_verif.go (CrashHook), harnesses themselves enter through a go/packages and `go test -overlay` overlay (no file is written into /repo)",
            "baseline_off_cmd": "cd /repo && GOFLAGS=-mod=mod GOPROXY=off go test -vet=off -count=1 ./...",
            "source_commits": ["0fdfac7"],
            "add_only": True,
        },
        "engines": [{"name": "gosmt", "path": "/verif/engine", "serves_properties": sorted(CHECKS), "kind_free_text": "go/ssa symbolic executor with state merging; SMT-LIB2 QF_BV queries decided by z3 5.1 (z3-new); counterexample and cover models replayed natively through `go test -overlay`"}],
        "checks": checks,
        "not_applicable": na,
        "notes": "Every check exits 0 = all obligations unsat within the stated bounds and all cover points satisfiable and natively reached; 1 = replayed violation not listed in known_findings.json; 2 = broken (unsupported code, undecided query, vacuous harness, model that does not reproduce). fix: commits in /repo: 288c728 (C03), 7d87c36 (C06), 1c28c1b (C07), 3e84664 (C08), ab07dc1 (C14), 67b69e1 (C16), 4aea936+51ad804 (C15), 9975e1e+e3d37c1 (C19), eb0564f (C09), 9d661ca (C16 broker order), 9d98e20 (C07 file MarkSeen), ad2f77f+4c7bc0f (C11), 3de1e55 (C10 id reuse after restart), 9a3f2a1 (C04 domain case), 67ffb6e+cf6e756 (C04 empty / dotted base name), 7c537cb (C02 POP3 long lines), 0b6c731 (C04 POP3 mailbox name), 82795e5 (C15 closed listener), 11dcc6e (C11 cap eviction atomic), 6581824 (C15 slow monitor), dbbb36a (C09 evict vs remove), 94ac69d (C04 address literals), 5aae425 (C01 partial delivery), 444ce1b (C14 slash in mailbox name routable).",
    }
    json.dump(m, open('/verif/MANIFEST.json', 'w'), indent=1)
    print("checks:", [c['property_id'] for c in checks], "n/a:", len(na))

if __name__ == '__main__':
    main()
