// Package zzdeliver holds the Deliver harnesses (it must import message and storage/mem).
package zzdeliver

import (
	"io"

	"github.com/inbucket/inbucket/v3/pkg/config"
	"github.com/inbucket/inbucket/v3/pkg/extension"
	"github.com/inbucket/inbucket/v3/pkg/extension/event"
	"github.com/inbucket/inbucket/v3/pkg/message"
	"github.com/inbucket/inbucket/v3/pkg/policy"
	"github.com/inbucket/inbucket/v3/pkg/storage"
	"github.com/inbucket/inbucket/v3/pkg/storage/file"
	"github.com/inbucket/inbucket/v3/pkg/storage/mem"
	vrf "github.com/inbucket/inbucket/v3/pkg/zzvrf"
)

// the recipient menu: two domains, a duplicate mailbox via case and +ext, a discard-listed domain
var vrfRcptMenu = []string{"u1@d.org", "U1+tag@d.org", "u2@e.org", "u3@dis.org", "u1@e.org"}

func vrfSetup(mode int, hooks *extension.Host, backend int) (*message.StoreManager, storage.Store, *policy.Addressing) {
	ds := vrf.Bool("defaultStore")
	if backend == 1 {
		// mailbox directory names are hashes of the mailbox name: keep the set of mailboxes concrete
		// per path (case split instead of a merged, symbolic recipient list)
		n := 0
		if ds {
			n = 1
		}
		ds = vrf.Fork(n) == 1
	}
	root := &config.Root{SMTP: config.SMTP{
		DefaultStore:   ds,
		StoreDomains:   []string{"d.org"},
		DiscardDomains: []string{"dis.org"},
	}}
	switch mode {
	case 1:
		root.MailboxNaming = config.LocalNaming
	case 2:
		root.MailboxNaming = config.FullNaming
	case 3:
		root.MailboxNaming = config.DomainNaming
	}
	ap := &policy.Addressing{Config: root}
	var st storage.Store
	var err error
	if backend == 1 {
		// the file store, over the file-system model under the engine / a real temporary
		// directory natively (removed by VfsCleanup at the end of the harness)
		st, err = file.New(config.Storage{Params: map[string]string{"path": vrf.VfsTempDir()}}, hooks)
	} else {
		st, err = mem.New(config.Storage{}, hooks)
	}
	if err != nil {
		panic(err)
	}
	return &message.StoreManager{AddrPolicy: ap, Store: st, ExtHost: hooks}, st, ap
}

func vrfAll(rc io.ReadCloser) []byte {
	b, _ := vrf.ReadAll(rc)
	rc.Close()
	return b
}

func vrfCount(st storage.Store, box string) int {
	ms, _ := st.GetMessages(box)
	return len(ms)
}

// VerifC01Deliver: the real StoreManager.Deliver over the real memory store. r recipients chosen
// symbolically from the menu (built by the real NewRecipient in naming mode `mode`), symbolic
// store policy, symbolic body of n bytes. Afterwards every mailbox holds exactly one new message
// per accepted recipient that names it and whose domain is eligible; each carries the sender,
// the To list and subject, and its source is Return-Path + Received + body byte for byte with
// Size() == len(source) (C01, C02). One stored event per stored message (C16).
func VerifC01Deliver(mode int, r int, n int, backend int) {
	defer vrf.VfsCleanup()
	hooks := extension.NewHost()
	var stored []event.MessageMetadata
	hooks.Events.AfterMessageStored.AddListener("vrf", func(m event.MessageMetadata) {
		stored = append(stored, m)
	})
	mgr, st, ap := vrfSetup(mode, hooks, backend)
	vrf.HdrFrom, vrf.HdrTo, vrf.HdrSubject = "", "", ""
	origin, err := ap.ParseOrigin("sender@o.org")
	if err != nil {
		return
	}
	var rcpts []*policy.Recipient
	var want = map[string]int{}
	for i := 0; i < r; i++ {
		addr := vrfRcptMenu[vrf.Fork(vrf.Choose("rcpt"+string(rune('1'+i)), len(vrfRcptMenu)))]
		rc, rerr := ap.NewRecipient(addr)
		if rerr != nil {
			return
		}
		rcpts = append(rcpts, rc)
		if rc.ShouldStore() {
			want[rc.Mailbox]++
		}
	}
	body := vrf.Bytes("body", n)
	bodyCopy := append([]byte(nil), body...)
	recvd := "Received: from h ([1.2.3.4]) by inbucket\r\n"
	derr := mgr.Deliver(origin, rcpts, recvd, body)
	vrf.Quiesce()
	vrf.Join()
	vrf.Assert("deliver-noerr", derr == nil)
	vrf.Cover("delivered")
	total := 0
	seen := map[string]bool{}
	verr := st.VisitMailboxes(func(ms []storage.Message) bool {
		if len(ms) == 0 {
			return true
		}
		box := ms[0].Mailbox()
		seen[box] = true
		vrf.Assert("one-message-per-eligible-recipient", len(ms) == want[box])
		total += len(ms)
		for _, m := range ms {
			vrf.Assert("sender", m.From() != nil && m.From().Address == "sender@o.org")
			vrf.Assert("to-list-length", len(m.To()) == len(rcpts))
			vrf.Assert("subject", m.Subject() == "")
			src, serr := m.Source()
			vrf.Assert("source-noerr", serr == nil)
			if serr != nil {
				continue
			}
			data := vrfAll(src)
			vrf.Assert("size-equals-source-length", m.Size() == int64(len(data)))
			// the stored source ends with exactly the transmitted body
			vrf.Assert("source-at-least-body", len(data) >= len(bodyCopy))
			if len(data) >= len(bodyCopy) {
				off := len(data) - len(bodyCopy)
				same := true
				for j := 0; j < len(bodyCopy); j++ {
					if data[off+j] != bodyCopy[j] {
						same = false
					}
				}
				vrf.Assert("body-bytes-exact", same)
				hdr := string(data[:off])
				wantHdr := "Return-Path: <sender@o.org>\r\n" + recvd + "  for <" + box + ">; "
				vrf.Assert("trace-headers-prefix", len(hdr) > len(wantHdr) && hdr[:len(wantHdr)] == wantHdr)
				vrf.Assert("trace-headers-end", len(hdr) >= 2 && hdr[len(hdr)-2:] == "\r\n")
			}
		}
		return true
	})
	vrf.Assert("visit-noerr", verr == nil)
	for box, k := range want {
		if k > 0 {
			vrf.Assert("eligible-mailbox-has-mail", seen[box])
		}
	}
	wantTotal := 0
	for _, k := range want {
		wantTotal += k
	}
	vrf.Assert("no-other-mailbox-changed", total == wantTotal)
	vrf.CoverIf("something-stored", wantTotal > 0)
	vrf.CoverIf("something-discarded", wantTotal < r)
	// C16: one stored event per stored message, same mailbox and id (listeners run asynchronously:
	// the engine runs them to completion before the harness continues)
	vrf.Assert("one-stored-event-per-message", len(stored) == wantTotal)
}

// VerifC17Inbound: a BeforeMessageStored listener may replace the inbound message: the message is
// then delivered to exactly the mailboxes it names (no store-policy filtering) with its sender, To
// and subject; with no answer the policy decides.
func VerifC17Inbound(nboxes int) {
	hooks := extension.NewHost()
	override := vrf.Bool("hookReplaces")
	boxes := []string{"hook1", "hook2@x.org", "u1"}[:nboxes]
	called := 0
	hooks.Events.BeforeMessageStored.AddListener("first", func(in event.InboundMessage) *event.InboundMessage {
		called++
		if !override {
			return nil
		}
		return &event.InboundMessage{Mailboxes: boxes, From: in.From, To: in.To, Subject: "rewritten", Size: in.Size}
	})
	second := 0
	hooks.Events.BeforeMessageStored.AddListener("second", func(in event.InboundMessage) *event.InboundMessage {
		second++
		return &event.InboundMessage{Mailboxes: []string{"from-second"}, From: in.From, To: in.To, Subject: "second", Size: in.Size}
	})
	mgr, st, ap := vrfSetup(1, hooks, 0)
	vrf.HdrFrom, vrf.HdrTo, vrf.HdrSubject = "", "", ""
	origin, _ := ap.ParseOrigin("sender@o.org")
	rc, err := ap.NewRecipient("u1@dis.org")
	if err != nil {
		return
	}
	derr := mgr.Deliver(origin, []*policy.Recipient{rc}, "Received: x\r\n", []byte("hello\n"))
	vrf.Assert("deliver-noerr", derr == nil)
	vrf.Cover("delivered")
	vrf.Assert("first-listener-called-once", called == 1)
	if override {
		vrf.CoverIf("replaced", true)
		vrf.Assert("later-listener-not-called", second == 0)
		for _, b := range boxes {
			ms, _ := st.GetMessages(b)
			vrf.Assert("delivered-to-hook-mailbox", len(ms) == 1)
			if len(ms) == 1 {
				vrf.Assert("hook-subject", ms[0].Subject() == "rewritten")
			}
		}
		if nboxes < 3 {
			vrf.Assert("not-delivered-to-policy-mailbox", vrfCount(st, "u1") == 0)
		}
		vrf.Assert("second-hook-mailbox-untouched", vrfCount(st, "from-second") == 0)
	} else {
		// the first listener did not answer: the second one's answer counts
		vrf.Assert("second-listener-consulted", second == 1)
		vrf.Assert("second-answer-honoured", vrfCount(st, "from-second") == 1)
	}
}

// failingStore fails AddMessage for one mailbox.
type failingStore struct {
	storage.Store
	failBox string
}

func (f *failingStore) AddMessage(m storage.Message) (string, error) {
	if m.Mailbox() == f.failBox {
		return "", io.ErrShortWrite
	}
	return f.Store.AddMessage(m)
}

// VerifC16DeliverOrder: stored and deleted events of one delivery, seen by one listener registered
// for both. scn 0: two recipients name the same mailbox (by case and +extension) and the mailbox
// cap is 1, so the second copy evicts the first: the listener sees stored(1), deleted(1),
// stored(2) - a message's stored event before its deleted event. scn 1: the store fails for the
// second recipient's mailbox: the delivery as a whole fails, so nothing stays in any mailbox (C01),
// and the copy that had been stored for the first recipient has a stored and a deleted event.
func VerifC16DeliverOrder(scn int) {
	hooks := extension.NewHost()
	var seen []string
	hooks.Events.AfterMessageStored.AddListener("vrf", func(m event.MessageMetadata) {
		seen = append(seen, "S"+m.Mailbox+"/"+m.ID)
	})
	hooks.Events.AfterMessageDeleted.AddListener("vrf", func(m event.MessageMetadata) {
		seen = append(seen, "D"+m.Mailbox+"/"+m.ID)
	})
	root := &config.Root{MailboxNaming: config.LocalNaming, SMTP: config.SMTP{DefaultStore: true}}
	ap := &policy.Addressing{Config: root}
	mcap := 0
	if scn == 0 {
		mcap = 1
	}
	st, err := mem.New(config.Storage{MailboxMsgCap: mcap}, hooks)
	if err != nil {
		return
	}
	var store storage.Store = st
	addrs := []string{"u1@d.org", "U1+tag@d.org"}
	if scn == 1 {
		store = &failingStore{Store: st, failBox: "u2"}
		addrs = []string{"u1@d.org", "u2@d.org"}
	}
	mgr := &message.StoreManager{AddrPolicy: ap, Store: store, ExtHost: hooks}
	vrf.HdrFrom, vrf.HdrTo, vrf.HdrSubject = "", "", ""
	origin, _ := ap.ParseOrigin("sender@o.org")
	var rcpts []*policy.Recipient
	for _, a := range addrs {
		rc, rerr := ap.NewRecipient(a)
		if rerr != nil {
			return
		}
		rcpts = append(rcpts, rc)
	}
	derr := mgr.Deliver(origin, rcpts, "Received: x\r\n", []byte("hello\n"))
	vrf.Quiesce()
	vrf.Cover("delivered")
	if scn == 0 {
		vrf.Assert("deliver-noerr", derr == nil)
		vrf.Assert("stored-before-deleted-in-order", len(seen) == 3 && seen[0] == "Su1/1" && seen[1] == "Du1/1" && seen[2] == "Su1/2")
	} else {
		// C01: a transaction that is refused (the session answers 451 when Deliver fails) adds
		// nothing to any mailbox - the copy stored for the first recipient does not stay; C16: the
		// message that entered and left the mailbox has its stored and its deleted event
		vrf.Assert("deliver-reports-the-failure", derr != nil)
		ms, _ := st.GetMessages("u1")
		vrf.Assert("failed-delivery-leaves-nothing-behind", len(ms) == 0)
		vrf.Assert("events-of-the-undone-copy", len(seen) == 2 && seen[0] == "Su1/1" && seen[1] == "Du1/1")
	}
}
