// Package zzc12 holds the retention harnesses (it must import both storage and storage/mem).
package zzc12

import (
	"context"
	"io"
	"net/mail"
	"time"

	"github.com/inbucket/inbucket/v3/pkg/config"
	"github.com/inbucket/inbucket/v3/pkg/extension"
	"github.com/inbucket/inbucket/v3/pkg/storage"
	"github.com/inbucket/inbucket/v3/pkg/storage/mem"
	vrf "github.com/inbucket/inbucket/v3/pkg/zzvrf"
)

type inMsg struct {
	mailbox string
	date    time.Time
}

func (m *inMsg) Mailbox() string                { return m.mailbox }
func (m *inMsg) ID() string                     { return "" }
func (m *inMsg) From() *mail.Address            { return &mail.Address{} }
func (m *inMsg) To() []*mail.Address            { return nil }
func (m *inMsg) Date() time.Time                { return m.date }
func (m *inMsg) Subject() string                { return "s" }
func (m *inMsg) Source() (io.ReadCloser, error) { return &vrf.ByteSource{Data: []byte("x")}, nil }
func (m *inMsg) Size() int64                    { return 1 }
func (m *inMsg) Seen() bool                     { return false }

// scriptCtx is a context whose Done channel is closed when Done() has been called cancelAt times
// (the scanner observes cancellation only through Done()): cancelAt = 0 means "already cancelled",
// a negative value "never".
type scriptCtx struct {
	done     chan struct{}
	calls    int
	cancelAt int
	closed   bool
}

func newScriptCtx(cancelAt int) *scriptCtx {
	c := &scriptCtx{done: make(chan struct{}), cancelAt: cancelAt}
	if cancelAt == 0 {
		close(c.done)
		c.closed = true
	}
	return c
}

func (c *scriptCtx) Deadline() (time.Time, bool) { return time.Time{}, false }
func (c *scriptCtx) Done() <-chan struct{} {
	c.calls++
	if !c.closed && c.cancelAt > 0 && c.calls >= c.cancelAt {
		close(c.done)
		c.closed = true
	}
	return c.done
}
func (c *scriptCtx) Err() error {
	if c.closed {
		return context.Canceled
	}
	return nil
}
func (c *scriptCtx) Value(key interface{}) interface{} { return nil }

// racingStore delivers a fresh message into a mailbox right after the scanner took its snapshot
// of that mailbox and before the scanner acts on it (a delivery racing with the scan).
type racingStore struct {
	storage.Store
	fresh func(box string)
}

func (r *racingStore) VisitMailboxes(f func([]storage.Message) bool) error {
	return r.Store.VisitMailboxes(func(ms []storage.Message) bool {
		if len(ms) > 0 {
			r.fresh(ms[0].Mailbox())
		}
		return f(ms)
	})
}

const hour = int64(time.Hour)

// VerifC12Scan: one DoScan over a real memory store holding m1+m2 messages with symbolic dates in
// two mailboxes. T0/T1 are clock readings before/after the scan (the scan reads the clock in
// between): a message older than T0-period is gone, one younger than T1-period is still there
// with its place in the listing; nothing else changes.
func VerifC12Scan(m1 int, m2 int, race int) {
	vrf.SymbolicClock()
	st, err := mem.New(config.Storage{}, extension.NewHost())
	if err != nil {
		return
	}
	period := time.Duration(vrf.Int64("periodNs"))
	vrf.Assume(int64(period) >= -1000*hour)
	vrf.Assume(int64(period) <= 1000*hour)
	t0 := time.Now()
	type rec struct {
		box  string
		id   string
		date time.Time
	}
	var recs []rec
	add := func(box string, n int) {
		for i := 0; i < n; i++ {
			off := vrf.Int64("age_" + box + string(rune('1'+i)))
			vrf.Assume(off >= -2000*hour)
			vrf.Assume(off <= 2000*hour)
			d := t0.Add(time.Duration(off))
			id, aerr := st.AddMessage(&inMsg{mailbox: box, date: d})
			vrf.Assert("add-noerr", aerr == nil)
			recs = append(recs, rec{box, id, d})
		}
	}
	add("a", m1)
	add("b", m2)
	var scanned storage.Store = st
	var fresh []rec
	if race == 1 {
		// only meaningful when a brand-new message is younger than the period
		vrf.Assume(int64(period) > 0)
		scanned = &racingStore{Store: st, fresh: func(box string) {
			d := time.Now()
			id, aerr := st.AddMessage(&inMsg{mailbox: box, date: d})
			if aerr == nil {
				fresh = append(fresh, rec{box, id, d})
			}
		}}
	}
	clientRemoved := map[string]bool{}
	if race == 2 {
		// the message the client removes is one the scanner wants to remove as well, whatever the
		// clock does during the scan (so that a counterexample does not depend on a clock jump
		// that a native replay cannot reproduce)
		for i, r := range recs {
			if i == 0 || recs[i-1].box != r.box {
				vrf.Assume(r.date.Before(t0.Add(-period)))
			}
		}
		// a client deletes the first message of each mailbox right after the scanner took its
		// snapshot of that mailbox: the scanner then gets "does not exist" for it and must carry on
		scanned = &racingStore{Store: st, fresh: func(box string) {
			ms, _ := st.GetMessages(box)
			if len(ms) > 0 {
				if st.RemoveMessage(box, ms[0].ID()) == nil {
					clientRemoved[box+"/"+ms[0].ID()] = true
				}
			}
		}}
	}
	rs := storage.NewRetentionScanner(config.Storage{RetentionPeriod: period, RetentionSleep: 1}, scanned)
	serr := rs.DoScan(newScriptCtx(-1))
	t1 := time.Now()
	vrf.Assert("scan-noerr", serr == nil)
	vrf.Cover("scanned")
	oldCut := t0.Add(-period)
	newCut := t1.Add(-period)
	for _, r := range recs {
		msg, gerr := st.GetMessage(r.box, r.id)
		present := gerr == nil && msg != nil
		if r.date.Before(oldCut) {
			vrf.CoverIf("expired-message", true)
			vrf.Assert("expired-removed", !present)
		}
		if clientRemoved[r.box+"/"+r.id] {
			vrf.CoverIf("racing-removal", true)
			continue
		}
		if r.date.After(newCut) {
			vrf.CoverIf("young-message", true)
			vrf.Assert("young-retained", present)
		}
	}
	for _, r := range fresh {
		msg, gerr := st.GetMessage(r.box, r.id)
		vrf.CoverIf("racing-delivery", true)
		vrf.Assert("racing-delivery-survives", gerr == nil && msg != nil)
	}
	// survivors keep their arrival order
	for _, box := range []string{"a", "b"} {
		ms, lerr := st.GetMessages(box)
		vrf.Assert("list-noerr", lerr == nil)
		prev := ""
		for _, m := range ms {
			if prev != "" {
				vrf.Assert("order-kept", len(prev) < len(m.ID()) || (len(prev) == len(m.ID()) && prev < m.ID()))
			}
			prev = m.ID()
		}
	}
}

// countingStore counts removals (and otherwise behaves like an empty store with one mailbox).
type countingStore struct {
	removes int
	visits  int
	msgs    []storage.Message
}

type oldMsg struct{ inMsg }

func (s *countingStore) AddMessage(storage.Message) (string, error)          { return "", nil }
func (s *countingStore) GetMessage(string, string) (storage.Message, error) { return nil, storage.ErrNotExist }
func (s *countingStore) GetMessages(string) ([]storage.Message, error)      { return s.msgs, nil }
func (s *countingStore) MarkSeen(string, string) error                      { return nil }
func (s *countingStore) PurgeMessages(string) error                         { return nil }
func (s *countingStore) RemoveMessage(string, string) error                 { s.removes++; return nil }
func (s *countingStore) VisitMailboxes(f func([]storage.Message) bool) error {
	// two mailboxes
	for i := 0; i < 2; i++ {
		s.visits++
		if !f(s.msgs) {
			break
		}
	}
	return nil
}

// VerifC12Start: the run loop. A period <= 0 disables the scanner (nothing is ever removed, Join
// returns); with a positive period the loop ends once cancellation is observed (cancelAt-th look at
// ctx.Done()), Join returns, and after a scan observed the cancellation no further mailbox is visited.
func VerifC12Start(cancelAt int) {
	vrf.SymbolicClock()
	period := time.Duration(vrf.Int64("periodNs"))
	vrf.Assume(int64(period) >= -10*hour)
	vrf.Assume(int64(period) <= 10*hour)
	st := &countingStore{msgs: []storage.Message{&inMsg{mailbox: "a", date: time.Unix(0, 1)}}}
	rs := storage.NewRetentionScanner(config.Storage{RetentionPeriod: period, RetentionSleep: 1}, st)
	ctx := newScriptCtx(cancelAt)
	rs.Start(ctx)
	rs.Join()
	vrf.Cover("start-returned")
	if period <= 0 {
		vrf.CoverIf("disabled", true)
		vrf.Assert("disabled-never-removes", st.removes == 0)
		vrf.Assert("disabled-never-visits", st.visits == 0)
	} else {
		vrf.CoverIf("enabled", true)
		vrf.Assert("cancel-observed", ctx.closed)
		// each observation point is one look at Done(). The look that finds the channel closed
		// ends its phase (sleep or mailbox visit); at most the end-of-scan check follows it.
		vrf.Assert("stops-promptly", ctx.calls <= cancelAt+2)
		vrf.Assert("no-further-mailboxes", st.visits <= cancelAt+1)
	}
}
