package rest

import (
	"context"
	"time"

	"github.com/inbucket/inbucket/v3/pkg/extension"
	"github.com/inbucket/inbucket/v3/pkg/extension/event"
	"github.com/inbucket/inbucket/v3/pkg/msghub"
	"github.com/inbucket/inbucket/v3/pkg/rest/model"
	vrf "github.com/inbucket/inbucket/v3/pkg/zzvrf"
)

type vrfNeverCtx struct{ done chan struct{} }

func (c *vrfNeverCtx) Deadline() (time.Time, bool)       { return time.Time{}, false }
func (c *vrfNeverCtx) Done() <-chan struct{}             { return c.done }
func (c *vrfNeverCtx) Err() error                        { return nil }
func (c *vrfNeverCtx) Value(key interface{}) interface{} { return nil }

var _ context.Context = &vrfNeverCtx{}

// reference hub
type vrfEvt struct {
	deleted bool
	box     string
	id      string
}

type vrfRefListener struct {
	ml     *msgListenerV2
	filter string
	log    []vrfEvt // events the listener must find in its queue, in order
	closed bool
	born   int // step at which the monitor joined (keeps distinct monitor objects in distinct paths)
}

type vrfRefHub struct {
	hlen      int
	history   []vrfEvt
	listeners []*vrfRefListener
}

func (r *vrfRefHub) dispatch(box, id string) {
	if r.hlen > 0 {
		r.history = append(r.history, vrfEvt{box: box, id: id})
		if len(r.history) > r.hlen {
			r.history = r.history[1:]
		}
	}
	for _, l := range r.listeners {
		if !l.closed && (l.filter == "" || l.filter == box) {
			l.log = append(l.log, vrfEvt{box: box, id: id})
		}
	}
}

func (r *vrfRefHub) remove(box, id string) {
	var h []vrfEvt
	for _, e := range r.history {
		if e.box == box && e.id == id {
			continue
		}
		h = append(h, e)
	}
	r.history = h
	for _, l := range r.listeners {
		if !l.closed && (l.filter == "" || l.filter == box) {
			l.log = append(l.log, vrfEvt{deleted: true, box: box, id: id})
		}
	}
}

func (r *vrfRefHub) join(ml *msgListenerV2, filter string, step int) {
	l := &vrfRefListener{ml: ml, filter: filter, born: step}
	for _, e := range r.history {
		if filter == "" || filter == e.box {
			l.log = append(l.log, e)
		}
	}
	r.listeners = append(r.listeners, l)
}

func (r *vrfRefHub) live() int {
	n := 0
	for _, l := range r.listeners {
		if !l.closed {
			n++
		}
	}
	return n
}

func vrfMix(h, v int) int { return (h*1009 + v + 17) % 1000003 }

func vrfEvtCode(e vrfEvt) int {
	c := int(e.id[0])*4 + int(e.box[0]-'a')*2
	if e.deleted {
		c++
	}
	return c
}

func (r *vrfRefHub) shape() int {
	h := 5
	for _, e := range r.history {
		h = vrfMix(h, vrfEvtCode(e))
	}
	h = vrfMix(h, 999)
	for _, l := range r.listeners {
		c := 2
		if l.filter != "" {
			c = 3
		}
		if l.closed {
			c += 2
		}
		h = vrfMix(h, 2000+c+10*l.born)
		for _, e := range l.log {
			h = vrfMix(h, vrfEvtCode(e))
		}
	}
	return h
}

// vrfMatch compares the next queued event of a listener with the expected one.
func vrfMatch(ev *model.JSONMonitorEventV2, want vrfEvt) bool {
	if ev == nil {
		return false
	}
	if want.deleted {
		return ev.Variant == "message-deleted" && ev.Identifier != nil && ev.Identifier.Mailbox == want.box && ev.Identifier.ID == want.id
	}
	return ev.Variant == "message-stored" && ev.Header != nil && ev.Header.Mailbox == want.box && ev.Header.ID == want.id
}

// VerifC15Hub: a real msghub.Hub (history length hlen, real Start loop) with real WebSocket-v2
// listeners. k symbolic actions: store a message in mailbox a / b, delete an earlier message, a new
// monitor joins (all mailboxes / mailbox b), the client of the first monitor reads one event, the
// first monitor disconnects. After every action the hub is left to drain its queue. Each monitor
// must find in its queue exactly the retained history followed by every later event for its filter,
// once and in order; a monitor that disconnects is dropped and costs the others nothing.
func VerifC15Hub(hlen int, k int) {
	hub := msghub.New(hlen, extension.NewHost())
	go hub.Start(&vrfNeverCtx{done: make(chan struct{})})
	ref := &vrfRefHub{hlen: hlen}
	// one monitor is attached from the start
	first := newMsgListenerV2(hub, "")
	vrf.Quiesce()
	ref.join(first, "", 0)
	nextID := 0
	var ids []vrfEvt
	for step := 1; step <= k; step++ {
		sfx := string(rune('0' + step))
		switch vrf.Fork(vrf.Choose("act"+sfx, 7)) {
		case 0, 1:
			box := "a"
			if vrf.Fork(vrf.Choose("box"+sfx, 2)) == 1 {
				box = "b"
			}
			nextID++
			id := string(rune('0' + nextID))
			hub.Dispatch(event.MessageMetadata{Mailbox: box, ID: id})
			ref.dispatch(box, id)
			ids = append(ids, vrfEvt{box: box, id: id})
		case 2:
			if len(ids) > 0 {
				e := ids[vrf.Fork(vrf.Choose("del"+sfx, len(ids)))]
				hub.Delete(e.box, e.id)
				ref.remove(e.box, e.id)
			}
		case 3:
			ml := newMsgListenerV2(hub, "")
			vrf.Quiesce()
			ref.join(ml, "", step)
		case 4:
			ml := newMsgListenerV2(hub, "b")
			vrf.Quiesce()
			ref.join(ml, "b", step)
		case 5:
			// the first monitor's client reads one event (what WSWriter does)
			l := ref.listeners[0]
			if !l.closed && len(l.log) > 0 {
				vrf.Quiesce()
				vrf.Assert("expected-event-is-queued", len(first.c) > 0)
				if len(first.c) > 0 {
					ev := <-first.c
					vrf.Assert("read-in-order", vrfMatch(ev, l.log[0]))
				}
				l.log = l.log[1:]
			}
		case 6:
			// the first monitor disconnects (WSReader / WSWriter call Close on their way out)
			l := ref.listeners[0]
			if !l.closed {
				vrf.CoverIf("close-with-events-buffered", len(l.log) > 0)
				first.Close()
				l.closed = true
			}
		}
		vrf.Quiesce()
		vrf.Assert("hub-queue-drained", msghub.VrfQueued(hub) == 0)
		vrf.Assert("disconnected-listener-dropped", msghub.VrfListenerCount(hub) == ref.live())
		if step < k {
			vrf.Regroup(ref.shape())
		}
	}
	vrf.Join()
	vrf.Cover("actions-done")
	// every live monitor finds exactly its expected events, in order
	for li, l := range ref.listeners {
		if l.closed {
			continue
		}
		vrf.Assert("queue-length", len(l.ml.c) == len(l.log))
		if len(l.ml.c) != len(l.log) {
			continue
		}
		for _, want := range l.log {
			ev := <-l.ml.c
			vrf.Assert("event-once-in-order", vrfMatch(ev, want))
		}
		vrf.CoverIf("second-monitor-checked", li > 0)
	}
}

type vrfSlowMonitor struct{ n int }

func (l *vrfSlowMonitor) Receive(m event.MessageMetadata) error {
	l.n++
	if l.n == 1 {
		// slow on its first event: the hub goroutine is held here
		vrf.Gate("slowMonitor")
	}
	return nil
}
func (l *vrfSlowMonitor) Delete(mailbox string, id string) error { return nil }

// VerifC15CloseRace: a monitor disconnects while events are still queued in the hub in front of
// its unregistration (the hub is busy inside a slow monitor at that moment). The other monitors
// must still receive every event - a disconnecting monitor is dropped without harming the rest.
// Natively the hub visits its listeners in map order, so the scenario is repeated.
func VerifC15CloseRace(hlen int) {
	iters := 1
	if !vrf.Symbolic() {
		iters = 24
	}
	for it := 0; it < iters; it++ {
		vrf.ResetGates()
		hub := msghub.New(hlen, extension.NewHost())
		ctx := &vrfNeverCtx{done: make(chan struct{})}
		go hub.Start(ctx)
		leaving := newMsgListenerV2(hub, "") // registers itself
		staying := newMsgListenerV2(hub, "")
		hub.AddListener(&vrfSlowMonitor{})
		hub.Sync()
		hub.Dispatch(event.MessageMetadata{Mailbox: "a", ID: "1"})
		vrf.Quiesce() // the hub is inside the slow monitor now (if it is held)
		hub.Dispatch(event.MessageMetadata{Mailbox: "a", ID: "2"})
		leaving.Close()
		vrf.Open("slowMonitor")
		hub.Sync()
		n := len(staying.c)
		vrf.Assert("other-monitor-gets-every-event", n == 2)
		if n == 2 {
			e1 := <-staying.c
			e2 := <-staying.c
			vrf.Assert("other-monitor-events-in-order", e1.Header != nil && e1.Header.ID == "1" && e2.Header != nil && e2.Header.ID == "2")
		}
		hub.Dispatch(event.MessageMetadata{Mailbox: "a", ID: "3"})
		hub.Sync()
		vrf.Assert("hub-keeps-working", len(staying.c) == 1)
		close(ctx.done)
	}
	vrf.Cover("close-race-done")
	vrf.CoverIf("close-race-with-busy-hub", vrf.Bool("gate_slowMonitor"))
}

type vrfCountingMonitor struct{ ids []string }

func (l *vrfCountingMonitor) Receive(m event.MessageMetadata) error {
	l.ids = append(l.ids, m.ID)
	// the dispatcher may get ahead of the hub here (refilling the hub's operation queue) before the
	// hub goes on to the next monitor
	vrf.PreemptPoint()
	return nil
}
func (l *vrfCountingMonitor) Delete(mailbox string, id string) error { return nil }

func vrfID3(i int) string {
	return string([]byte{byte('0' + i/100), byte('0' + (i/10)%10), byte('0' + i%10)})
}

// VerifC15Slow: a WebSocket monitor whose client has stopped reading (its 100-slot queue fills up)
// must not block the hub: n > 100 events are dispatched, the hub keeps serving (Sync returns), and
// a second monitor receives every one of them in order. What happens to the slow monitor (it is
// dropped) is not asserted beyond that.
func VerifC15Slow(n int) {
	hub := msghub.New(2, extension.NewHost())
	ctx := &vrfNeverCtx{done: make(chan struct{})}
	go hub.Start(ctx)
	fast := &vrfCountingMonitor{}
	hub.AddListener(fast)
	slow := newMsgListenerV2(hub, "") // nobody reads slow.c
	hub.Sync()
	vrf.Preemptions(1)
	done := make(chan bool, 1)
	go func() {
		for i := 1; i <= n; i++ {
			hub.Dispatch(event.MessageMetadata{Mailbox: "a", ID: vrfID3(i)})
		}
		hub.Sync()
		done <- true
	}()
	select {
	case <-done:
	case <-time.After(3 * time.Second):
		vrf.Assert("slow-monitor-never-blocks-the-hub", false)
		close(ctx.done)
		return
	}
	vrf.Assert("other-monitor-gets-every-event", len(fast.ids) == n)
	inOrder := len(fast.ids) == n
	if inOrder {
		for i := 0; i < n; i++ {
			if fast.ids[i] != vrfID3(i+1) {
				inOrder = false
			}
		}
	}
	vrf.Assert("other-monitor-events-in-order", inOrder)
	vrf.Assert("slow-monitor-queue-bounded", len(slow.c) <= 100)
	close(ctx.done)
	vrf.Cover("slow-monitor-done")
}

// VerifC15ViaHost: the hub as it is wired in the server - fed by the extension host's stored and
// deleted events. A message is stored and deleted right away; once everything has settled, a
// monitor that joins must not be replayed the deleted message, and a monitor that was attached
// all along must have seen "stored" before "deleted". Explored under run-to-block scheduling plus
// `pre` pre-emptions (the event dispatch goroutines take a mutex); natively the race is repeated.
func VerifC15ViaHost(pre int) {
	iters := 1
	if !vrf.Symbolic() {
		iters = 300
	}
	for it := 0; it < iters; it++ {
		host := extension.NewHost()
		hub := msghub.New(3, host)
		ctx := &vrfNeverCtx{done: make(chan struct{})}
		go hub.Start(ctx)
		early := newMsgListenerV2(hub, "")
		hub.Sync()
		vrf.Preemptions(pre)
		m := event.MessageMetadata{Mailbox: "a", ID: "1"}
		host.Events.AfterMessageStored.Emit(&m)
		host.Events.AfterMessageDeleted.Emit(&m)
		vrf.Quiesce()
		vrf.Quiesce()
		hub.Sync()
		vrf.Assert("early-monitor-got-both-events", len(early.c) == 2)
		if len(early.c) == 2 {
			e1 := <-early.c
			e2 := <-early.c
			vrf.Assert("stored-before-deleted-into-the-hub", e1.Variant == "message-stored" && e2.Variant == "message-deleted")
		}
		late := newMsgListenerV2(hub, "")
		hub.Sync()
		vrf.Assert("deleted-message-not-in-replayed-history", len(late.c) == 0)
		close(ctx.done)
	}
	vrf.Cover("via-host-done")
}
