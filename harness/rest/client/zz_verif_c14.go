package client

import (
	"net/http"
	"net/url"
	"sync"

	"github.com/gorilla/mux"
	"github.com/inbucket/inbucket/v3/pkg/rest"
	"github.com/inbucket/inbucket/v3/pkg/server/web"
	vrf "github.com/inbucket/inbucket/v3/pkg/zzvrf"
)

// VerifC14Escape: the path segment the client builds for a mailbox name decodes (as the router
// decodes path segments) back to exactly that name, and contains no '/' or '?'.
func VerifC14Escape(n int) {
	name := vrf.StringN("name", n)
	for i := 0; i < n; i++ {
		vrf.Assume(name[i] < 0x80)
		vrf.Assume(name[i] != ' ')
	}
	seg := url.QueryEscape(name)
	vrf.Cover("escaped")
	for i := 0; i < len(seg); i++ {
		vrf.Assert("no-slash", seg[i] != '/')
		vrf.Assert("no-question-mark", seg[i] != '?')
	}
	back, err := url.PathUnescape(seg)
	vrf.Assert("unescape-noerr", err == nil)
	vrf.Assert("roundtrip", back == name)
}

type vrfDoer struct {
	method  string
	path    string
	rawPath string
	hasBody bool
	calls   int
	answer  []byte // when non-nil: the body of the 200 response
	req     *http.Request
}

var (
	vrfRoutesMu sync.Mutex
	vrfRoutes   = map[string]bool{}
)

// vrfRouted says whether the server (configured with base path bp) hands the request to a mailbox
// route and the handler then sees the given mailbox name. The handler's view of the route
// variables is computed by the real web.NewContext (web.VerifRouteVars), the prefix of the route
// templates by the real web.RoutePrefixer. Natively the real gorilla/mux router - web.Router, set
// up with the real route table the way server/lifecycle.go does - is asked for the match. Under
// the engine gorilla/mux's matching (regular expressions) is outside the encoding and its
// documented rule stands in: the template prefix is matched literally, then the path segment by
// segment, a route variable being one segment, so v1/mailbox/{name}[/{id}[/source]] has exactly 3,
// 4 or 5 segments; the path matched is the decoded one, or the encoded one if the router was
// switched to encoded paths - which is read from the router object the real initialiser of
// package web built.
func vrfRouted(d *vrfDoer, bp, name string, extra int) bool {
	tpl := web.RoutePrefixer(bp)("/api/")
	if !vrf.Symbolic() {
		vrfRoutesMu.Lock()
		if !vrfRoutes[bp] {
			vrfRoutes[bp] = true
			rest.SetupRoutes(web.Router.PathPrefix(tpl).Subrouter())
		}
		vrfRoutesMu.Unlock()
		var m mux.RouteMatch
		if !web.Router.Match(d.req, &m) || m.MatchErr != nil {
			return false
		}
		return web.VerifRouteVars(d.req, m.Vars)["name"] == name
	}
	path := d.path
	if vrf.PeekBool(web.Router, "useEncodedPath") {
		path = d.rawPath
	}
	if len(path) < len(tpl) || path[:len(tpl)] != tpl {
		return false
	}
	seg, cur := []string{}, ""
	for i := len(tpl); i < len(path); i++ {
		if path[i] == '/' {
			seg = append(seg, cur)
			cur = ""
		} else {
			cur += string(path[i])
		}
	}
	seg = append(seg, cur)
	if len(seg) != 3+extra || seg[0] != "v1" || seg[1] != "mailbox" {
		return false
	}
	return web.VerifRouteVars(d.req, map[string]string{"name": seg[2]})["name"] == name
}

func (d *vrfDoer) Do(req *http.Request) (*http.Response, error) {
	d.calls++
	d.method = req.Method
	d.path = req.URL.Path
	d.rawPath = req.URL.EscapedPath()
	d.hasBody = req.Body != nil && req.Body != http.NoBody
	d.req = req
	if d.answer != nil {
		return &http.Response{StatusCode: 200, Status: "200 OK", Body: &vrf.ByteSource{Data: d.answer}}, nil
	}
	return &http.Response{StatusCode: 200, Status: "200 OK", Body: http.NoBody}, nil
}

// VerifC14ClientSource: GetMessageSource gives the caller exactly what the server answered with -
// a body of arbitrary length up to 16 MiB whose content is not inspected (mode 0), or a short body
// with arbitrary content (mode 1).
func VerifC14ClientSource(mode int) {
	var body []byte
	if mode == 0 {
		body = vrf.LenOnly("body")
		vrf.Assume(len(body) >= 1 && len(body) <= 16<<20)
	} else {
		body = vrf.Bytes("body", 6)
	}
	d := &vrfDoer{answer: body}
	base, _ := url.Parse("http://h:9000/")
	c := &Client{restClient{client: d, baseURL: base}}
	buf, err := c.GetMessageSource("box", "7")
	vrf.Cover("source-fetched")
	vrf.Assert("source-noerr", err == nil && buf != nil)
	if err != nil || buf == nil {
		return
	}
	vrf.Assert("source-length-is-what-the-server-sent", buf.Len() == len(body))
	if mode == 1 {
		got := buf.Bytes()
		same := len(got) == len(body)
		for i := 0; same && i < len(body); i++ {
			if got[i] != body[i] {
				same = false
			}
		}
		vrf.Assert("source-bytes-are-what-the-server-sent", same)
	}
}

// VerifC14Client: every client operation issues the request the server's route for that operation
// expects: method, path /api/v1/mailbox/<name>[/<id>[/source]] whose name segment decodes to the
// mailbox name, and — for mark-seen — a JSON body (the handler rejects a request without one).
func VerifC14Client(op int, bpi int) {
	// names with URL-significant characters that can receive mail (the symbolic treatment of the
	// escaping itself is VerifC14Escape; the full request construction in net/url + net/http is
	// executed on these concrete names)
	names := []string{"box", "a+b", "x%41y", "50%off", "a@b.org", "q?x=1", "a#b", "we/ird", "a&b=c"}
	name := names[vrf.Fork(vrf.Choose("name", len(names)))]
	d := &vrfDoer{}
	// the server's base path and the base URL a user of the client would configure for it
	bp := []string{"", "inbucket", "my app"}[bpi]
	base, _ := url.Parse([]string{"http://h:9000/", "http://h:9000/inbucket/", "http://h:9000/my%20app"}[bpi])
	root := "/"
	if bp != "" {
		root = "/" + bp + "/"
	}
	c := &Client{restClient{client: d, baseURL: base}}
	wantMethod, wantSuffix, needBody := "GET", "", false
	switch op {
	case 0:
		c.ListMailbox(name)
	case 1:
		c.GetMessage(name, "7")
		wantSuffix = "/7"
	case 2:
		c.GetMessageSource(name, "7")
		wantSuffix = "/7/source"
	case 3:
		c.DeleteMessage(name, "7")
		wantMethod, wantSuffix = "DELETE", "/7"
	case 4:
		c.PurgeMailbox(name)
		wantMethod = "DELETE"
	case 5:
		c.MarkSeen(name, "7")
		wantMethod, wantSuffix, needBody = "PATCH", "/7", true
	}
	vrf.Cover("request-issued")
	vrf.Assert("one-request", d.calls == 1)
	vrf.Assert("method", d.method == wantMethod)
	vrf.Assert("decoded-path", d.path == root+"api/v1/mailbox/"+name+wantSuffix)
	extra := 0
	if wantSuffix == "/7" {
		extra = 1
	} else if wantSuffix == "/7/source" {
		extra = 2
	}
	vrf.Assert("server-routes-the-request-to-the-mailbox", vrfRouted(d, bp, name, extra))
	if needBody {
		vrf.Assert("mark-seen-sends-a-body", d.hasBody)
	}
}
