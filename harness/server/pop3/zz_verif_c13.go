package pop3

import (
	"strings"
	"io"
	"net/mail"
	"time"

	"github.com/inbucket/inbucket/v3/pkg/config"
	"github.com/inbucket/inbucket/v3/pkg/storage"
	vrf "github.com/inbucket/inbucket/v3/pkg/zzvrf"
)

// ---- a scripted store ----

type vrfMsg struct {
	mailbox string
	id      string
	size    int64
	src     []byte
}

func (m *vrfMsg) Mailbox() string     { return m.mailbox }
func (m *vrfMsg) ID() string          { return m.id }
func (m *vrfMsg) From() *mail.Address { return &mail.Address{} }
func (m *vrfMsg) To() []*mail.Address { return nil }
func (m *vrfMsg) Date() time.Time     { return time.Time{} }
func (m *vrfMsg) Subject() string     { return "" }
func (m *vrfMsg) Size() int64         { return m.size }
func (m *vrfMsg) Seen() bool          { return false }
func (m *vrfMsg) Source() (io.ReadCloser, error) {
	return &vrf.ByteSource{Data: m.src}, nil
}

type vrfStore struct {
	boxes   map[string][]*vrfMsg
	removed []string // ids passed to RemoveMessage, in order
	rmBox   []string
	// onRemove, when set, runs at the start of RemoveMessage (a place for a gate: a slow store)
	onRemove func()
}

func (s *vrfStore) AddMessage(storage.Message) (string, error) { return "", nil }
func (s *vrfStore) GetMessage(mailbox, id string) (storage.Message, error) {
	return nil, storage.ErrNotExist
}
func (s *vrfStore) GetMessages(mailbox string) ([]storage.Message, error) {
	var out []storage.Message
	for _, m := range s.boxes[mailbox] {
		out = append(out, m)
	}
	return out, nil
}
func (s *vrfStore) MarkSeen(mailbox, id string) error  { return nil }
func (s *vrfStore) PurgeMessages(mailbox string) error { return nil }
func (s *vrfStore) RemoveMessage(mailbox, id string) error {
	if s.onRemove != nil {
		s.onRemove()
	}
	s.removed = append(s.removed, id)
	s.rmBox = append(s.rmBox, mailbox)
	// a message that has gone in the meantime (the store changed behind the session) cannot be
	// removed: the other marked messages must be removed all the same
	for _, m := range s.boxes[mailbox] {
		if m.id == id {
			return nil
		}
	}
	return storage.ErrNotExist
}
func (s *vrfStore) VisitMailboxes(f func([]storage.Message) bool) error { return nil }

// ---- menu ----

const (
	pOther = iota
	pUser
	pPass
	pApop
	pStat
	pList
	pListN
	pUidl
	pUidlN
	pDele
	pRetr
	pTop
	pRset
	pNoop
	pQuit
	pCapa
)

type vrfPLine struct {
	text string
	kind int
	n    int // message number argument (0: none / invalid)
}

var vrfPMenu = []vrfPLine{
	{"USER box", pUser, 0},
	{"USER", pUser, -1},
	{"PASS secret", pPass, 0},
	{"APOP box digest", pApop, 0},
	{"APOP box", pApop, -1},
	{"STAT", pStat, 0},
	{"STAT x", pStat, -1},
	{"LIST", pList, 0},
	{"LIST 1", pListN, 1},
	{"LIST 3", pListN, 3},
	{"LIST 0", pListN, 0},
	{"LIST 4", pListN, 4},
	{"LIST x", pListN, -1},
	{"UIDL", pUidl, 0},
	{"UIDL 2", pUidlN, 2},
	{"UIDL 3", pUidlN, 3},
	{"UIDL -1", pUidlN, -1},
	{"DELE 1", pDele, 1},
	{"DELE 2", pDele, 2},
	{"DELE 3", pDele, 3},
	{"DELE 9", pDele, 9},
	{"DELE", pDele, -1},
	{"dele 1", pDele, 1},
	{"RETR 2", pRetr, 2},
	{"RETR 7", pRetr, 7},
	{"TOP 1 1", pTop, 1},
	{"TOP 1 -1", pTop, -1},
	{"TOP 1", pTop, -1},
	{"RSET", pRset, 0},
	{"NOOP", pNoop, 0},
	{"QUIT", pQuit, 0},
	{"CAPA", pCapa, 0},
	{"", pOther, 0},
	{"FOO bar", pOther, 0},
	{"\x00\xfe 1", pOther, 0},
	// an over-long line: 4096 bytes of an unknown command followed, on the same line, by text that
	// would be a command of its own if the line were split at the reader's buffer size
	{vrfPLongLine, pOther, 0},
}

var vrfPLongLine = "XYZZ " + strings.Repeat("x", 4091) + "DELE 1"

var vrfPQuick = []int{2, 3, 5, 7, 8, 9, 13, 15, 17, 19, 20, 23, 28, 30, 35}

// ---- ghost ----

type vrfPGhost struct {
	started bool
	userSet bool
	inTx    bool
	quit    bool
	ended   bool
	snap    []*vrfMsg // snapshot at login
	marked  []bool
	kind    int
	n       int
	cut     bool
}

func vrfOK(r string) bool {
	if len(r) < 3 {
		return false
	}
	return r[0] == '+' && r[1] == 'O' && r[2] == 'K'
}

func vrfERR(r string) bool {
	if len(r) < 4 {
		return false
	}
	return r[0] == '-' && r[1] == 'E' && r[2] == 'R' && r[3] == 'R'
}

func vrfItoa(n int64) string {
	if n == 0 {
		return "0"
	}
	neg := n < 0
	if neg {
		n = -n
	}
	var b []byte
	for n > 0 {
		b = append([]byte{byte('0' + n%10)}, b...)
		n /= 10
	}
	if neg {
		b = append([]byte{'-'}, b...)
	}
	return string(b)
}

func (g *vrfPGhost) live() (count int, size int64) {
	for i, m := range g.snap {
		if !g.marked[i] {
			count++
			size += m.size
		}
	}
	return
}

// check compares the replies to the last command with the reference POP3 behaviour: status
// indicators, the RFC 1939 data fields, snapshot stability and the commit-on-QUIT rule.
func (g *vrfPGhost) check(replies []string, st *vrfStore) {
	if !g.started {
		g.started = true
		vrf.Assert("banner", len(replies) == 1 && vrfOK(replies[0]))
		return
	}
	if g.cut {
		return
	}
	vrf.Assert("some-reply", len(replies) >= 1)
	if len(replies) == 0 {
		return
	}
	first := replies[0]
	vrf.Assert("status-indicator", vrfOK(first) || vrfERR(first))
	ok := vrfOK(first)
	if g.kind == pCapa {
		vrf.Assert("capa-ok", ok && replies[len(replies)-1] == ".")
		return
	}
	if !g.inTx {
		vrf.Assert("no-remove-before-transaction", len(st.removed) == 0)
		switch g.kind {
		case pUser:
			if ok {
				g.userSet = true
			}
		case pPass:
			vrf.Assert("pass-needs-user", !ok || g.userSet)
			if ok {
				g.login(st)
			}
		case pApop:
			if g.n == -1 {
				vrf.Assert("apop-needs-two-args", !ok)
			}
			if ok {
				g.login(st)
			}
		case pQuit:
			if ok {
				g.quit = true
			}
		default:
			if g.kind != pOther {
				vrf.Assert("transaction-command-refused-before-login", !ok)
			}
		}
		vrf.Assert("single-line-reply", len(replies) == 1)
		return
	}
	// TRANSACTION
	if g.kind != pQuit {
		vrf.Assert("no-remove-before-quit", len(st.removed) == 0)
	}
	nmsg := len(g.snap)
	count, size := g.live()
	valid := g.n >= 1 && g.n <= nmsg
	switch g.kind {
	case pStat:
		if g.n == -1 {
			vrf.Assert("stat-args-refused", !ok)
		} else {
			vrf.Assert("stat-reply", first == "+OK "+vrfItoa(int64(count))+" "+vrfItoa(size))
		}
	case pList, pUidl:
		vrf.Assert("listing-ok", ok)
		vrf.Assert("listing-length", len(replies) == count+2)
		if len(replies) == count+2 {
			vrf.Assert("listing-terminated", replies[count+1] == ".")
			j := 1
			for i, m := range g.snap {
				if g.marked[i] {
					continue
				}
				want := vrfItoa(int64(i+1)) + " "
				if g.kind == pList {
					want += vrfItoa(m.size)
				} else {
					want += m.id
				}
				vrf.Assert("listing-entry", replies[j] == want)
				j++
			}
		}
	case pListN, pUidlN:
		if valid && !g.marked[g.n-1] {
			want := "+OK " + vrfItoa(int64(g.n)) + " "
			if g.kind == pListN {
				want += vrfItoa(g.snap[g.n-1].size)
			} else {
				want += g.snap[g.n-1].id
			}
			vrf.Assert("single-entry", first == want)
		} else {
			vrf.Assert("single-entry-refused", !ok)
		}
		vrf.Assert("single-line", len(replies) == 1)
	case pDele:
		if valid && !g.marked[g.n-1] {
			vrf.Assert("dele-ok", ok)
			if ok {
				g.marked[g.n-1] = true
			}
		} else {
			vrf.Assert("dele-refused", !ok)
		}
	case pRetr:
		if valid {
			if !g.marked[g.n-1] {
				vrf.Assert("retr-ok", ok)
			}
			if ok {
				vrf.Assert("retr-terminated", replies[len(replies)-1] == ".")
			}
		} else {
			vrf.Assert("retr-refused", !ok)
		}
	case pTop:
		if g.n == -1 {
			vrf.Assert("top-bad-args-refused", !ok)
		} else if ok {
			vrf.Assert("top-terminated", replies[len(replies)-1] == ".")
		}
	case pRset:
		vrf.Assert("rset-ok", ok)
		for i := range g.marked {
			g.marked[i] = false
		}
	case pNoop:
		vrf.Assert("noop-ok", ok)
	case pQuit:
		vrf.Assert("quit-ok", ok)
		g.quit = true
		// exactly the marked messages are removed, from the login mailbox
		want := 0
		for i := range g.snap {
			if g.marked[i] {
				want++
			}
		}
		vrf.Assert("quit-removes-marked-count", len(st.removed) == want)
		if len(st.removed) == want {
			j := 0
			for i, m := range g.snap {
				if g.marked[i] {
					vrf.Assert("quit-removes-marked-id", st.removed[j] == m.id)
					vrf.Assert("quit-removes-from-mailbox", st.rmBox[j] == "box")
					j++
				}
			}
		}
	case pUser, pPass, pApop:
		vrf.Assert("auth-command-refused-in-transaction", !ok)
	}
	switch g.kind {
	case pStat, pDele, pRset, pNoop, pQuit, pUser, pPass, pApop:
		// one command, one reply line (a second line would be taken for the reply to the next
		// command by the client)
		vrf.Assert("single-line-reply", len(replies) == 1)
	}
}

func (g *vrfPGhost) login(st *vrfStore) {
	g.inTx = true
	g.snap = append([]*vrfMsg(nil), st.boxes["box"]...)
	g.marked = make([]bool, len(g.snap))
}

// VerifC13Session drives the real POP3 session loop: pre != 0 logs in first (USER/PASS), then k
// symbolic steps from the menu, then EOF. The mailbox holds m messages of symbolic sizes; the
// store content changes behind the session's back after login.
func VerifC13Session(pre int, k int, full int, m int) {
	st := &vrfStore{boxes: map[string][]*vrfMsg{}}
	for i := 0; i < m; i++ {
		sz := vrf.Int("size"+string(rune('1'+i)), 0, 999)
		st.boxes["box"] = append(st.boxes["box"], &vrfMsg{mailbox: "box", id: "id" + string(rune('a'+i)), size: int64(sz), src: []byte("S: x\r\n\r\n.b\r\nc\r\n")})
	}
	srv, err := NewServer(config.POP3{Domain: "inbucket.local", Timeout: 5}, st)
	if err != nil {
		return
	}
	g := &vrfPGhost{}
	sc := vrf.NewScriptConn()
	nmenu := len(vrfPQuick)
	if full != 0 {
		nmenu = len(vrfPMenu)
	}
	prelude := []int{}
	if pre != 0 {
		prelude = []int{0, 2}
	}
	k += len(prelude)
	step := 0
	mutated := false
	sc.Next = func() vrf.Step {
		g.check(sc.Replies, st)
		sc.Replies = nil
		vrf.Join()
		vrf.Assert("no-read-after-quit", !g.quit)
		if g.inTx {
			if !mutated {
				// the mailbox changes behind the session: a new arrival and the first message gone
				mutated = true
				if vrf.Bool("storeChanges") {
					nb := append([]*vrfMsg(nil), st.boxes["box"]...)
					if len(nb) > 0 {
						nb = nb[1:]
					}
					nb = append(nb, &vrfMsg{mailbox: "box", id: "idnew", size: 5, src: []byte("x\r\n")})
					st.boxes["box"] = nb
				}
			}
		}
		g.cut = false
		if step >= k {
			g.ended = true
			g.cut = true
			// the connection ends by EOF, by an idle timeout or by another network error
			switch vrf.Fork(1001 + vrf.Choose("endKind", 4)) {
			case 1002:
				return vrf.Step{Kind: vrf.StepErr, Cut: true}
			case 1003:
				return vrf.Step{Kind: vrf.StepErr}
			case 1004:
				// the connection drops inside a line: the bytes "QUIT" arrive, the line end never
				// does - that is not a QUIT
				return vrf.Step{Kind: vrf.StepLine, Text: "QUIT", Cut: true}
			}
			return vrf.Step{Kind: vrf.StepEOF}
		}
		// paths at different steps can only meet here if the code under test reads one scripted
		// line in several pieces: keep them apart
		step = vrf.Fork(step)
		step++
		sel := 0
		if step <= len(prelude) {
			sel = prelude[step-1]
			vrf.Fork(2000 + step)
		} else {
			sel = vrf.Fork(vrf.Choose("line"+string(rune('0'+step-len(prelude))), nmenu))
			if full == 0 {
				sel = vrfPQuick[sel]
			}
		}
		ln := vrfPMenu[sel]
		g.kind = ln.kind
		g.n = ln.n
		return vrf.Step{Kind: vrf.StepLine, Text: ln.text}
	}
	srv.wg.Add(1)
	srv.startSession(1, sc)
	g.check(sc.Replies, st)
	vrf.Join()
	vrf.Cover("session-ended")
	vrf.CoverIf("quit-in-transaction", g.quit && g.inTx)
	vrf.CoverIf("something-removed", len(st.removed) > 0)
	vrf.Assert("conn-closed", sc.Closed)
	vrf.Assert("ended-by-quit-or-eof", g.quit || g.ended)
	if !g.quit {
		vrf.Assert("no-remove-without-quit", len(st.removed) == 0)
	}
}
