package pop3

import (
	"github.com/inbucket/inbucket/v3/pkg/config"
	"github.com/inbucket/inbucket/v3/pkg/policy"
	vrf "github.com/inbucket/inbucket/v3/pkg/zzvrf"
)

// VerifC04Pop3: POP3 is a read interface too: a user who logs in (USER/PASS or APOP) with any
// spelling of the address that delivered the mail (other letter case, a +extension, the full
// address) must reach the mailbox the mail went to - the name ExtractMailbox computes for that
// spelling in the configured naming mode (the server gets the addressing policy the way
// pkg/server/lifecycle.go gives it). The store holds one message in that mailbox; STAT must
// report it, and QUIT after DELE must remove it from that mailbox.
func VerifC04Pop3(mode int) {
	spellings := []string{"box", "BOX", "Box+tag", "box@d.org", "bOx+x@D.org"}
	which := vrf.Fork(vrf.Choose("spelling", len(spellings)))
	apop := vrf.Fork(vrf.Choose("apop", 2))
	root := &config.Root{}
	switch mode {
	case 1:
		root.MailboxNaming = config.LocalNaming
	case 2:
		root.MailboxNaming = config.FullNaming
	case 3:
		root.MailboxNaming = config.DomainNaming
	}
	ap := &policy.Addressing{Config: root}
	want, werr := ap.ExtractMailbox(spellings[which])
	if werr != nil {
		return
	}
	st := &vrfStore{boxes: map[string][]*vrfMsg{}}
	st.boxes[want] = []*vrfMsg{{mailbox: want, id: "ida", size: 7, src: []byte("x\r\n")}}
	srv, err := NewServer(config.POP3{Domain: "inbucket.local", Timeout: 5}, st)
	if err != nil {
		return
	}
	srv.AddrPolicy = ap
	sc := vrf.NewScriptConn()
	var stat []string
	script := []string{"USER " + spellings[which], "PASS x", "STAT", "DELE 1", "QUIT"}
	if apop == 1 {
		script = []string{"APOP " + spellings[which] + " 00000000000000000000000000000000", "NOOP", "STAT", "DELE 1", "QUIT"}
	}
	step := 0
	sc.Next = func() vrf.Step {
		if step == 3 {
			stat = sc.Replies
		}
		sc.Replies = nil
		step++
		if step > len(script) {
			return vrf.Step{Kind: vrf.StepEOF}
		}
		return vrf.Step{Kind: vrf.StepLine, Text: script[step-1]}
	}
	srv.wg.Add(1)
	srv.startSession(1, sc)
	vrf.Cover("pop3-login-done")
	vrf.Assert("pop3-reaches-the-mailbox-of-the-address", len(stat) == 1 && stat[0] == "+OK 1 7")
	vrf.Assert("pop3-deletes-from-that-mailbox", len(st.removed) == 1 && st.rmBox[0] == want)
}
