package pop3

import (
	"bytes"
	"github.com/inbucket/inbucket/v3/pkg/config"
	vrf "github.com/inbucket/inbucket/v3/pkg/zzvrf"
)

// vrfLines is the reference line split: lines end in '\n', one '\r' before it is dropped, a final
// unterminated line counts, an empty rest does not.
func vrfLines(src []byte) []string {
	if len(src) > 4096 {
		return vrfLinesLong(src)
	}
	var out []string
	start := 0
	for i := 0; i < len(src); i++ {
		if src[i] == '\n' {
			end := i
			if end > start {
				if src[end-1] == '\r' {
					end--
				}
			}
			out = append(out, string(src[start:end]))
			start = i + 1
		}
	}
	if start < len(src) {
		out = append(out, string(src[start:]))
	}
	return out
}

// vrfLinesLong is vrfLines with a search per line instead of a loop per byte (long sources).
func vrfLinesLong(src []byte) []string {
	var out []string
	start := 0
	for start < len(src) {
		i := bytes.IndexByte(src[start:], '\n')
		if i < 0 {
			break
		}
		end := start + i
		if end > start {
			if src[end-1] == '\r' {
				end--
			}
		}
		out = append(out, string(src[start:end]))
		start += i + 1
	}
	if start < len(src) {
		out = append(out, string(src[start:]))
	}
	return out
}

// VerifC02Retr: POP3 RETR / TOP of a message whose stored source is n symbolic bytes: after
// removing the dot-stuffing, the transmitted lines are exactly the source's lines (CRLF/LF
// normalised), terminated by a single "." line.
func VerifC02Retr(n int, top int) {
	src := vrf.Bytes("source", n)
	// precondition: a stored source is the trace headers (ending in CRLF) followed by what
	// textproto.ReadDotBytes returned, in which every line ends in '\n' — so it is empty or ends in
	// '\n'. (Without it the check raised a false alarm on a source ending in a bare CR, which no
	// SMTP input can produce.)
	if len(src) > 0 {
		vrf.Assume(src[len(src)-1] == '\n')
	}
	keep := append([]byte(nil), src...)
	st := &vrfStore{boxes: map[string][]*vrfMsg{}}
	st.boxes["box"] = []*vrfMsg{{mailbox: "box", id: "ida", size: int64(len(src)), src: src}}
	srv, err := NewServer(config.POP3{Domain: "inbucket.local", Timeout: 5}, st)
	if err != nil {
		return
	}
	sc := vrf.NewScriptConn()
	var got []string
	step := 0
	sc.Next = func() vrf.Step {
		if step == 3 {
			got = sc.Replies
		}
		sc.Replies = nil
		step++
		switch step {
		case 1:
			return vrf.Step{Kind: vrf.StepLine, Text: "USER box"}
		case 2:
			return vrf.Step{Kind: vrf.StepLine, Text: "PASS x"}
		case 3:
			if top != 0 {
				return vrf.Step{Kind: vrf.StepLine, Text: "TOP 1 9"}
			}
			return vrf.Step{Kind: vrf.StepLine, Text: "RETR 1"}
		}
		return vrf.Step{Kind: vrf.StepEOF}
	}
	srv.wg.Add(1)
	srv.startSession(1, sc)
	vrf.Cover("retrieved")
	want := vrfLines(keep)
	vrf.Assert("reply-count", len(got) == len(want)+2)
	if len(got) != len(want)+2 {
		return
	}
	vrf.Assert("status-ok", vrfOK(got[0]))
	vrf.Assert("terminator", got[len(got)-1] == ".")
	for i, w := range want {
		line := got[i+1]
		// undo dot-stuffing
		if len(line) > 0 {
			if line[0] == '.' {
				vrf.CoverIf("stuffed-line", true)
				line = line[1:]
			}
		}
		vrf.Assert("line-content", line == w)
		if len(w) > 0 {
			if w[0] == '.' {
				vrf.Assert("leading-dot-was-stuffed", len(got[i+1]) == len(w)+1)
			}
		}
	}
}

// VerifC02RetrLong: RETR / TOP of a message with one very long line (L bytes without a line
// break, around and beyond bufio's 64 KiB token size) between ordinary lines: every line is
// transmitted, the long one unbroken. This scenario is concrete (an array of 64 Ki symbolic-or-not
// bytes with even one symbolic byte in it is beyond what the engine handles): the engine executes
// the real code over it and the solver has nothing to choose - a directed run, listed as such.
func VerifC02RetrLong(L int, top int) {
	head := "S: x\r\n\r\n"
	long := bytes.Repeat([]byte{'a'}, L)
	src := append(append([]byte(head), long...), []byte("\r\n.end\r\n")...)
	keep := append([]byte(nil), src...)
	st := &vrfStore{boxes: map[string][]*vrfMsg{}}
	st.boxes["box"] = []*vrfMsg{{mailbox: "box", id: "ida", size: int64(len(src)), src: src}}
	srv, err := NewServer(config.POP3{Domain: "inbucket.local", Timeout: 5}, st)
	if err != nil {
		return
	}
	sc := vrf.NewScriptConn()
	var got []string
	step := 0
	sc.Next = func() vrf.Step {
		if step == 3 {
			got = sc.Replies
		}
		sc.Replies = nil
		step++
		switch step {
		case 1:
			return vrf.Step{Kind: vrf.StepLine, Text: "USER box"}
		case 2:
			return vrf.Step{Kind: vrf.StepLine, Text: "PASS x"}
		case 3:
			if top != 0 {
				return vrf.Step{Kind: vrf.StepLine, Text: "TOP 1 9"}
			}
			return vrf.Step{Kind: vrf.StepLine, Text: "RETR 1"}
		}
		return vrf.Step{Kind: vrf.StepEOF}
	}
	srv.wg.Add(1)
	srv.startSession(1, sc)
	vrf.Cover("retrieved-long")
	want := vrfLines(keep)
	vrf.Assert("long-line-reply-count", len(got) == len(want)+2)
	if len(got) != len(want)+2 {
		return
	}
	vrf.Assert("status-ok", vrfOK(got[0]))
	vrf.Assert("terminator", got[len(got)-1] == ".")
	for i, w := range want {
		line := got[i+1]
		if len(line) > 0 && line[0] == '.' {
			line = line[1:]
		}
		vrf.Assert("long-line-content", line == w)
	}
}
