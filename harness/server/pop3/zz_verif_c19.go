package pop3

import (
	"github.com/inbucket/inbucket/v3/pkg/config"
	vrf "github.com/inbucket/inbucket/v3/pkg/zzvrf"
)

// VerifC19Drain: POP3 counterpart of the SMTP drain harness: a session held at its start or right
// before QUIT while shutdown is requested; Drain waits for it and the deletions marked in the
// session are still applied on QUIT.
func VerifC19Drain() {
	vrf.ResetGates()
	st := &vrfStore{boxes: map[string][]*vrfMsg{}}
	st.boxes["box"] = []*vrfMsg{{mailbox: "box", id: "ida", size: 3, src: []byte("x\r\n")}}
	// the store may be slow to apply a deletion (held until the harness has looked at Drain)
	st.onRemove = func() { vrf.Gate("applyDelete") }
	srv, err := NewServer(config.POP3{Domain: "inbucket.local", Timeout: 5}, st)
	if err != nil {
		return
	}
	sc := vrf.NewScriptConn()
	sc.OnRemoteAddr = func() { vrf.Gate("sessionStart") }
	script := []string{"USER box", "PASS x", "DELE 1", "QUIT"}
	step := 0
	sc.Next = func() vrf.Step {
		sc.Replies = nil
		step++
		if step > len(script) {
			return vrf.Step{Kind: vrf.StepEOF}
		}
		if step == 4 {
			vrf.Gate("beforeQuit")
		}
		return vrf.Step{Kind: vrf.StepLine, Text: script[step-1]}
	}
	lis := vrf.NewScriptListener(sc)
	srv.listener = lis
	ctx := vrf.NewCancelCtx()
	go srv.serve(ctx)
	vrf.Quiesce()
	ctx.Cancel()
	lis.Close()
	vrf.Quiesce()
	drainReturned, drainedEarly := false, false
	helperDone := make(chan bool, 1)
	go func() {
		vrf.Quiesce()
		vrf.Open("sessionStart")
		vrf.Open("beforeQuit")
		vrf.Quiesce()
		// the session now sits in the store applying its deletion (if that is held): Drain must
		// still be waiting
		drainedEarly = drainReturned && len(st.removed) == 0
		vrf.Open("applyDelete")
		helperDone <- true
	}()
	srv.Drain()
	drainReturned = true
	<-helperDone
	vrf.Quiesce()
	vrf.Assert("drain-waits-for-pending-deletions", !drainedEarly)
	vrf.Cover("drain-returned")
	vrf.CoverIf("schedule-session-held-at-start", vrf.Bool("gate_sessionStart"))
	vrf.CoverIf("schedule-session-held-before-quit", vrf.Bool("gate_beforeQuit"))
	vrf.CoverIf("schedule-store-slow-to-delete", vrf.Bool("gate_applyDelete"))
	vrf.Assert("drain-returns-only-after-sessions-ended", sc.Closed)
	vrf.Assert("pending-deletes-applied-on-quit", len(st.removed) == 1)
	vrf.Assert("nothing-accepted-after-close", lis.Accepted == 1)
}
