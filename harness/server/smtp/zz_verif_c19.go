package smtp

import (
	"net"

	vrf "github.com/inbucket/inbucket/v3/pkg/zzvrf"
)

// VerifC19Drain: the real serve loop accepts one scripted connection whose session may be held
// back (gates) right at its start and between DATA and the message body. Shutdown is requested
// (context cancelled, listener closed) and Drain is called while the session is held; then the
// gates open. Drain must return only after the session has finished; the message whose transfer
// was in progress is still stored and acknowledged; nothing is accepted after the listener closed.
func VerifC19Drain() {
	vrf.ResetGates()
	mgr := &vrfManager{}
	srv := vrfServer(mgr, 5, true)
	sc := vrf.NewScriptConn()
	sc.OnRemoteAddr = func() { vrf.Gate("sessionStart") }
	script := []string{"EHLO me", "MAIL FROM:<a@o.org>", "RCPT TO:<u1@d.org>", "DATA", "", "QUIT"}
	step := 0
	got250 := false
	sc.Next = func() vrf.Step {
		if step == 5 {
			// reply to the message body
			if len(sc.Replies) > 0 {
				r := sc.Replies[len(sc.Replies)-1]
				if len(r) > 3 {
					if r[:3] == "250" {
						got250 = true
					}
				}
			}
		}
		sc.Replies = nil
		step++
		if step > len(script) {
			return vrf.Step{Kind: vrf.StepEOF}
		}
		if step == 5 {
			vrf.Gate("midData")
			return vrf.Step{Kind: vrf.StepBody, Body: vrfBody}
		}
		return vrf.Step{Kind: vrf.StepLine, Text: script[step-1]}
	}
	lis := vrf.NewScriptListener(sc)
	srv.listener = lis
	ctx := vrf.NewCancelCtx()
	go srv.serve(ctx)
	vrf.Quiesce()
	// shutdown is requested
	ctx.Cancel()
	lis.Close()
	vrf.Quiesce()
	// the held session is released a little later, while Drain is waiting
	go func() {
		vrf.Quiesce()
		vrf.Open("sessionStart")
		vrf.Open("midData")
	}()
	srv.Drain()
	sessionOver := sc.Closed
	vrf.Cover("drain-returned")
	vrf.CoverIf("schedule-session-held-at-start", vrf.Bool("gate_sessionStart"))
	vrf.CoverIf("schedule-session-held-mid-data", vrf.Bool("gate_midData"))
	vrf.Assert("drain-returns-only-after-sessions-ended", sessionOver)
	vrf.Quiesce()
	vrf.Quiesce()
	vrf.Assert("open-session-completes", sc.Closed)
	vrf.Assert("message-in-progress-stored", len(mgr.calls) == 1)
	vrf.Assert("message-in-progress-acknowledged", got250)
	vrf.Assert("nothing-accepted-after-close", lis.Accepted == 1)
}

// VerifC19DrainN: the same with n connections accepted before shutdown is requested: each session
// has its own pair of gates (held at its start / between DATA and the body, independently), Drain
// returns only after all of them have ended, every message in progress is stored and acknowledged.
func VerifC19DrainN(n int) {
	vrf.ResetGates()
	mgr := &vrfManager{}
	srv := vrfServer(mgr, 5, true)
	script := []string{"EHLO me", "MAIL FROM:<a@o.org>", "RCPT TO:<u1@d.org>", "DATA", "", "QUIT"}
	var conns []*vrf.ScriptConn
	acks := 0
	for i := 0; i < n; i++ {
		sc := vrf.NewScriptConn()
		tag := string(rune('1' + i))
		sc.OnRemoteAddr = func() { vrf.Gate("sessionStart" + tag) }
		step := 0
		sc.Next = func() vrf.Step {
			if step == 5 && len(sc.Replies) > 0 {
				r := sc.Replies[len(sc.Replies)-1]
				if len(r) > 3 && r[:3] == "250" {
					acks++
				}
			}
			sc.Replies = nil
			step++
			if step > len(script) {
				return vrf.Step{Kind: vrf.StepEOF}
			}
			if step == 5 {
				vrf.Gate("midData" + tag)
				return vrf.Step{Kind: vrf.StepBody, Body: vrfBody}
			}
			return vrf.Step{Kind: vrf.StepLine, Text: script[step-1]}
		}
		conns = append(conns, sc)
	}
	var nc []net.Conn
	for _, c := range conns {
		nc = append(nc, c)
	}
	lis := vrf.NewScriptListener(nc...)
	srv.listener = lis
	ctx := vrf.NewCancelCtx()
	go srv.serve(ctx)
	vrf.Quiesce()
	ctx.Cancel()
	lis.Close()
	vrf.Quiesce()
	go func() {
		vrf.Quiesce()
		for i := 0; i < n; i++ {
			tag := string(rune('1' + i))
			vrf.Open("sessionStart" + tag)
			vrf.Open("midData" + tag)
			vrf.Quiesce()
		}
	}()
	srv.Drain()
	allOver := true
	for _, c := range conns {
		if !c.Closed {
			allOver = false
		}
	}
	vrf.Cover("drain-returned-n")
	vrf.Assert("drain-returns-only-after-all-sessions-ended", allOver)
	vrf.Quiesce()
	vrf.Quiesce()
	vrf.Assert("every-message-in-progress-stored", len(mgr.calls) == n)
	vrf.Assert("every-message-in-progress-acknowledged", acks == n)
	vrf.Assert("nothing-accepted-after-close", lis.Accepted == n)
}
