package smtp

import (
	vrf "github.com/inbucket/inbucket/v3/pkg/zzvrf"
)

// VerifC19Drain: the real serve loop accepts one scripted connection whose session may be held
// back (gates) right at its start and between DATA and the message body. Shutdown is requested
// (context cancelled, listener closed) and Drain is called while the session is held; then the
// gates open. Drain must return only after the session has finished; the message whose transfer
// was in progress is still stored and acknowledged; nothing is accepted after the listener closed.
func VerifC19Drain() {
	vrf.ResetGates()
	mgr := &vrfManager{}
	srv := vrfServer(mgr, 5, true)
	sc := vrf.NewScriptConn()
	sc.OnRemoteAddr = func() { vrf.Gate("sessionStart") }
	script := []string{"EHLO me", "MAIL FROM:<a@o.org>", "RCPT TO:<u1@d.org>", "DATA", "", "QUIT"}
	step := 0
	got250 := false
	sc.Next = func() vrf.Step {
		if step == 5 {
			// reply to the message body
			if len(sc.Replies) > 0 {
				r := sc.Replies[len(sc.Replies)-1]
				if len(r) > 3 {
					if r[:3] == "250" {
						got250 = true
					}
				}
			}
		}
		sc.Replies = nil
		step++
		if step > len(script) {
			return vrf.Step{Kind: vrf.StepEOF}
		}
		if step == 5 {
			vrf.Gate("midData")
			return vrf.Step{Kind: vrf.StepBody, Body: vrfBody}
		}
		return vrf.Step{Kind: vrf.StepLine, Text: script[step-1]}
	}
	lis := vrf.NewScriptListener(sc)
	srv.listener = lis
	ctx := vrf.NewCancelCtx()
	go srv.serve(ctx)
	vrf.Quiesce()
	// shutdown is requested
	ctx.Cancel()
	lis.Close()
	vrf.Quiesce()
	// the held session is released a little later, while Drain is waiting
	go func() {
		vrf.Quiesce()
		vrf.Open("sessionStart")
		vrf.Open("midData")
	}()
	srv.Drain()
	sessionOver := sc.Closed
	vrf.Cover("drain-returned")
	vrf.CoverIf("schedule-session-held-at-start", vrf.Bool("gate_sessionStart"))
	vrf.CoverIf("schedule-session-held-mid-data", vrf.Bool("gate_midData"))
	vrf.Assert("drain-returns-only-after-sessions-ended", sessionOver)
	vrf.Quiesce()
	vrf.Quiesce()
	vrf.Assert("open-session-completes", sc.Closed)
	vrf.Assert("message-in-progress-stored", len(mgr.calls) == 1)
	vrf.Assert("message-in-progress-acknowledged", got250)
	vrf.Assert("nothing-accepted-after-close", lis.Accepted == 1)
}
