package smtp

import (
	"github.com/inbucket/inbucket/v3/pkg/config"
	"github.com/inbucket/inbucket/v3/pkg/extension"
	"github.com/inbucket/inbucket/v3/pkg/extension/event"
	"github.com/inbucket/inbucket/v3/pkg/policy"
	vrf "github.com/inbucket/inbucket/v3/pkg/zzvrf"
	"github.com/rs/zerolog"
)

func vrfCode(replies []string) int {
	if len(replies) == 0 {
		return 0
	}
	r := replies[len(replies)-1]
	if len(r) < 3 {
		return 0
	}
	return int(r[0]-'0')*100 + int(r[1]-'0')*10 + int(r[2]-'0')
}

// VerifC06Size: a message larger than MaxMessageBytes is refused — at MAIL when the declared SIZE
// is too large (nd > 0: a SIZE parameter of nd digits), otherwise at the end of DATA — nothing of
// it is delivered, messages within the limit are accepted, and the session stays usable.
func VerifC06Size(nd int, kw int) {
	limit := vrf.Int("limit", 1, 60000)
	bodyLen := vrf.Int("bodyLen", 0, 70000)
	mgr := &vrfManager{}
	root := &config.Root{
		MailboxNaming: config.FullNaming,
		SMTP: config.SMTP{Domain: "inbucket.local", MaxRecipients: 5, MaxMessageBytes: limit, DefaultAccept: true, Timeout: 5},
	}
	host := extension.NewHost()
	// an extension may explicitly allow the sender: the size limit still applies
	extAllows := vrf.Bool("extensionAllowsSender")
	host.Events.BeforeMailFromAccepted.AddListener("vrf", func(ss event.SMTPSession) *event.SMTPResponse {
		if extAllows {
			return &event.SMTPResponse{Action: event.ActionAllow}
		}
		return nil
	})
	srv := NewServer(root.SMTP, mgr, &policy.Addressing{Config: root}, host)
	mail := "MAIL FROM:<a@o.org>"
	keyword := []string{" SIZE=", " size=", " BODY=8BITMIME Size="}[kw]
	declared := -1
	if nd > 0 {
		digits := vrf.Digits("size", nd)
		mail = mail + keyword + digits
		declared = 0
		for i := 0; i < nd; i++ {
			declared = declared*10 + int(digits[i]-'0')
		}
	}
	body := vrf.LenOnly("bodyLen")
	_ = bodyLen
	sc := vrf.NewScriptConn()
	var codes []int
	bodySent := false
	step := 0
	sc.Next = func() vrf.Step {
		codes = append(codes, vrfCode(sc.Replies))
		sc.Replies = nil
		step++
		switch step {
		case 1:
			return vrf.Step{Kind: vrf.StepLine, Text: "EHLO me"}
		case 2:
			return vrf.Step{Kind: vrf.StepLine, Text: mail}
		case 3:
			return vrf.Step{Kind: vrf.StepLine, Text: "RCPT TO:<u@d.org>"}
		case 4:
			return vrf.Step{Kind: vrf.StepLine, Text: "DATA"}
		case 5:
			if codes[4] == 354 {
				bodySent = true
				return vrf.Step{Kind: vrf.StepBody, Body: body}
			}
			return vrf.Step{Kind: vrf.StepLine, Text: "NOOP"}
		case 6:
			return vrf.Step{Kind: vrf.StepLine, Text: "MAIL FROM:<again@o.org>"}
		}
		return vrf.Step{Kind: vrf.StepEOF}
	}
	srv.startSession(1, sc, zerolog.Nop())
	// codes[0] banner, [1] EHLO, [2] MAIL, [3] RCPT, [4] DATA, [5] body/NOOP, [6] second MAIL
	vrf.Assert("script-complete", len(codes) == 7)
	if len(codes) != 7 {
		return
	}
	vrf.Cover("dialogue-done")
	if nd > 0 {
		if declared > limit {
			vrf.CoverIf("size-refused", true)
			vrf.Assert("declared-oversize-refused-552", codes[2] == 552)
			vrf.Assert("declared-oversize-nothing-delivered", len(mgr.calls) == 0)
		} else {
			vrf.Assert("declared-within-limit-accepted", codes[2] == 250)
		}
	} else {
		vrf.Assert("mail-accepted", codes[2] == 250)
	}
	if bodySent {
		n := len(body)
		if n > limit {
			vrf.CoverIf("oversize-body", true)
			vrf.Assert("oversize-data-refused", codes[5] >= 500)
			vrf.Assert("oversize-data-not-delivered", len(mgr.calls) == 0)
		} else {
			vrf.CoverIf("body-within-limit", true)
			vrf.Assert("within-limit-accepted", codes[5] == 250)
			vrf.Assert("within-limit-delivered-once", len(mgr.calls) == 1)
			if len(mgr.calls) == 1 {
				vrf.Assert("delivered-size", mgr.calls[0].size == n)
			}
		}
	}
	// the session remains usable after a refusal: a new MAIL is accepted
	vrf.Assert("session-usable-afterwards", codes[6] == 250)
}
