package smtp

import (
	"github.com/inbucket/inbucket/v3/pkg/config"
	"github.com/inbucket/inbucket/v3/pkg/extension"
	"github.com/inbucket/inbucket/v3/pkg/extension/event"
	"github.com/inbucket/inbucket/v3/pkg/policy"
	vrf "github.com/inbucket/inbucket/v3/pkg/zzvrf"
	"github.com/rs/zerolog"
)

func vrfCode(replies []string) int {
	if len(replies) == 0 {
		return 0
	}
	r := replies[len(replies)-1]
	if len(r) < 3 {
		return 0
	}
	return int(r[0]-'0')*100 + int(r[1]-'0')*10 + int(r[2]-'0')
}

// VerifC06Size: a message larger than MaxMessageBytes is refused — at MAIL when the declared SIZE
// is too large (nd > 0: a SIZE parameter of nd digits), otherwise at the end of DATA — nothing of
// it is delivered, messages within the limit are accepted, and the session stays usable.
func VerifC06Size(nd int, kw int) {
	limit := vrf.Int("limit", 0, 60000)
	bodyLen := vrf.Int("bodyLen", 0, 70000)
	mgr := &vrfManager{}
	root := &config.Root{
		MailboxNaming: config.FullNaming,
		SMTP: config.SMTP{Domain: "inbucket.local", MaxRecipients: 5, MaxMessageBytes: limit, DefaultAccept: true, Timeout: 5},
	}
	host := extension.NewHost()
	// an extension may explicitly allow the sender: the size limit still applies
	extAllows := vrf.Bool("extensionAllowsSender")
	host.Events.BeforeMailFromAccepted.AddListener("vrf", func(ss event.SMTPSession) *event.SMTPResponse {
		if extAllows {
			return &event.SMTPResponse{Action: event.ActionAllow}
		}
		return nil
	})
	srv := NewServer(root.SMTP, mgr, &policy.Addressing{Config: root}, host)
	mail := "MAIL FROM:<a@o.org>"
	keyword := []string{" SIZE=", " size=", " BODY=8BITMIME Size="}[kw]
	declared := -1
	huge := false
	if nd == 20 {
		// declared sizes beyond 32, 63 and 64 bits, in concrete spellings: too large for any limit
		hs := []string{"4294967296", "9223372036854775807", "9223372036854775808", "18446744073709551615", "18446744073709551616", "99999999999999999999"}
		mail = mail + keyword + hs[vrf.Fork(vrf.Choose("hugeSize", len(hs)))]
		huge = true
	} else if nd > 0 {
		digits := vrf.Digits("size", nd)
		mail = mail + keyword + digits
		declared = 0
		for i := 0; i < nd; i++ {
			declared = declared*10 + int(digits[i]-'0')
		}
	}
	body := vrf.LenOnly("bodyLen")
	_ = bodyLen
	sc := vrf.NewScriptConn()
	var codes []int
	bodySent := false
	var first []vrfCall // Deliver calls made by the first transaction
	step := 0
	sc.Next = func() vrf.Step {
		codes = append(codes, vrfCode(sc.Replies))
		sc.Replies = nil
		step++
		switch step {
		case 1:
			return vrf.Step{Kind: vrf.StepLine, Text: "EHLO me"}
		case 2:
			return vrf.Step{Kind: vrf.StepLine, Text: mail}
		case 3:
			return vrf.Step{Kind: vrf.StepLine, Text: "RCPT TO:<u@d.org>"}
		case 4:
			return vrf.Step{Kind: vrf.StepLine, Text: "DATA"}
		case 5:
			if codes[4] == 354 {
				bodySent = true
				return vrf.Step{Kind: vrf.StepBody, Body: body}
			}
			return vrf.Step{Kind: vrf.StepLine, Text: "NOOP"}
		case 6:
			// what the first transaction delivered is fixed at this point
			first = append([]vrfCall(nil), mgr.calls...)
			return vrf.Step{Kind: vrf.StepLine, Text: "MAIL FROM:<again@o.org>"}
		case 7:
			return vrf.Step{Kind: vrf.StepLine, Text: "RCPT TO:<v@d.org>"}
		case 8:
			return vrf.Step{Kind: vrf.StepLine, Text: "DATA"}
		case 9:
			if len(codes) == 9 && codes[8] == 354 {
				return vrf.Step{Kind: vrf.StepBody, Body: []byte("x\r\n")}
			}
			return vrf.Step{Kind: vrf.StepLine, Text: "NOOP"}
		}
		return vrf.Step{Kind: vrf.StepEOF}
	}
	srv.startSession(1, sc, zerolog.Nop())
	// codes[0] banner, [1] EHLO, [2] MAIL, [3] RCPT, [4] DATA, [5] body/NOOP, [6] second MAIL,
	// [7] RCPT, [8] DATA, [9] body
	vrf.Assert("script-complete", len(codes) == 10)
	if len(codes) != 10 {
		return
	}
	vrf.Cover("dialogue-done")
	if huge {
		vrf.Assert("declared-huge-size-refused", codes[2] >= 500)
		vrf.Assert("declared-huge-size-nothing-delivered", len(first) == 0)
	} else if nd > 0 {
		if declared > limit {
			vrf.CoverIf("size-refused", true)
			vrf.Assert("declared-oversize-refused-552", codes[2] == 552)
			vrf.Assert("declared-oversize-nothing-delivered", len(first) == 0)
		} else {
			vrf.Assert("declared-within-limit-accepted", codes[2] == 250)
		}
	} else {
		vrf.Assert("mail-accepted", codes[2] == 250)
	}
	if bodySent {
		n := len(body)
		if n > limit {
			vrf.CoverIf("oversize-body", true)
			vrf.Assert("oversize-data-refused", codes[5] >= 500)
			vrf.Assert("oversize-data-not-delivered", len(first) == 0)
		} else {
			vrf.CoverIf("body-within-limit", true)
			vrf.Assert("within-limit-accepted", codes[5] == 250)
			vrf.Assert("within-limit-delivered-once", len(first) == 1)
			if len(first) == 1 {
				vrf.Assert("delivered-size", first[0].size == n)
			}
		}
	}
	// the session remains usable after a refusal: a new MAIL is accepted, and the new transaction
	// delivers to its own recipient only (the refused or completed one left nothing behind)
	vrf.Assert("session-usable-afterwards", codes[6] == 250)
	if 3 < limit && codes[6] == 250 {
		vrf.Assert("second-transaction-accepted", codes[7] == 250 && codes[8] == 354 && codes[9] == 250)
		vrf.Assert("second-transaction-delivered-once", len(mgr.calls) == len(first)+1)
		if len(mgr.calls) == len(first)+1 {
			last := mgr.calls[len(mgr.calls)-1]
			vrf.Assert("second-transaction-own-envelope", last.from == "again@o.org" && len(last.rcpts) == 1 && last.rcpts[0] == "v@d.org")
		}
	}
}
