package smtp

import (
	"strings"
	"errors"
	"io"

	"github.com/inbucket/inbucket/v3/pkg/config"
	"github.com/inbucket/inbucket/v3/pkg/extension"
	"github.com/inbucket/inbucket/v3/pkg/extension/event"
	"github.com/inbucket/inbucket/v3/pkg/message"
	"github.com/inbucket/inbucket/v3/pkg/policy"
	vrf "github.com/inbucket/inbucket/v3/pkg/zzvrf"
	"github.com/rs/zerolog"
)

// ---- recording Manager ----

type vrfCall struct {
	from  string
	rcpts []string
	size  int
}

type vrfManager struct {
	calls   []vrfCall
	failing bool // Deliver returns an error
}

func (m *vrfManager) Deliver(from *policy.Origin, recipients []*policy.Recipient, recvd string, content []byte) error {
	c := vrfCall{size: len(content)}
	if from != nil {
		c.from = from.Address.Address
	}
	for _, r := range recipients {
		c.rcpts = append(c.rcpts, r.Address.Address)
	}
	m.calls = append(m.calls, c)
	if m.failing {
		return errors.New("scripted store failure")
	}
	return nil
}
func (m *vrfManager) GetMetadata(mailbox string) ([]*event.MessageMetadata, error) { return nil, nil }
func (m *vrfManager) GetMessage(mailbox, id string) (*message.Message, error)       { return nil, nil }
func (m *vrfManager) MarkSeen(mailbox, id string) error                             { return nil }
func (m *vrfManager) PurgeMessages(mailbox string) error                            { return nil }
func (m *vrfManager) RemoveMessage(mailbox, id string) error                        { return nil }
func (m *vrfManager) SourceReader(mailbox, id string) (io.ReadCloser, error)        { return nil, nil }
func (m *vrfManager) MailboxForAddress(address string) (string, error)              { return address, nil }

// ---- menu of client lines ----

const (
	kOther = iota
	kHelo
	kEhlo
	kMail
	kRcpt
	kData
	kRset
	kQuit
	kAuthLogin
)

type vrfLine struct {
	text string
	kind int
	addr string // MAIL/RCPT: the address a 250 refers to
}

var vrfMenu = []vrfLine{
	{"HELO a", kHelo, ""},
	{"EHLO b.example", kEhlo, ""},
	{"helo", kHelo, ""},
	{"MAIL FROM:<a@o.org>", kMail, "a@o.org"},
	{"mail from:<> BODY=8BITMIME", kMail, ""},
	{"MAIL FROM:<b@rejorigin.org>", kMail, "b@rejorigin.org"},
	{"MAIL", kMail, ""},
	{"RCPT TO:<u1@d.org>", kRcpt, "u1@d.org"},
	{"rcpt to:<U1+x@D.org>", kRcpt, "U1+x@D.org"},
	{"RCPT TO:<u2@e.org>", kRcpt, "u2@e.org"},
	{"RCPT TO:<u3@rej.org>", kRcpt, "u3@rej.org"},
	{"RCPT TO:<bad@@>", kRcpt, "bad@@"},
	{"RCPT", kRcpt, ""},
	{"DATA", kData, ""},
	{"DATA now", kData, ""},
	{"RSET", kRset, ""},
	{"rset", kRset, ""},
	{"NOOP", kOther, ""},
	{"QUIT", kQuit, ""},
	{"VRFY a", kOther, ""},
	{"AUTH LOGIN", kAuthLogin, ""},
	{"AUTH PLAIN", kOther, ""},
	{"AUTH PLAIN abc", kOther, ""},
	{"STARTTLS", kOther, ""},
	{"", kOther, ""},
	{"abc", kOther, ""},
	{"HELP me", kOther, ""},
	{"FOOB bar", kOther, ""},
	{"\x80\xff\x00 \x01", kOther, ""},
	{"EHLO", kEhlo, ""},
	// an over-long line: 4096 bytes of an unknown command followed, on the same line, by text that
	// would be a command of its own if the line were split at the reader's buffer size
	{vrfLongLine, kOther, ""},
}

var vrfLongLine = "XYZZ " + strings.Repeat("x", 4091) + "RSET"

// the quick tier uses a sub-menu (indices into vrfMenu)
var vrfQuickMenu = []int{0, 1, 3, 5, 7, 8, 10, 13, 15, 18, 20, 25, 30}

// ---- ghost (reference) automaton ----

type vrfGhost struct {
	greeted    bool
	inTx       bool
	from       string
	rcpts      []string
	authLeft   int
	expectBody bool
	quit       bool
	ended      bool
	ncalls     int
	lastKind   int
	lastAddr   string
	lastBody   int  // length of the body offered at the last step (-1: none)
	lastCut    bool // last step cut the connection
	started    bool
}

func vrfDigit(c byte) bool {
	if '0' <= c {
		if c <= '9' {
			return true
		}
	}
	return false
}

func vrfSameList(a, b []string) bool {
	if len(a) != len(b) {
		return false
	}
	same := true
	for i := range a {
		if a[i] != b[i] {
			same = false
		}
	}
	return same
}

// check compares the replies to the previous step with the reference rules of C03/C01/C05.
func (g *vrfGhost) check(replies []string, mgr *vrfManager, maxRcpt int, writesOK bool) {
	if !g.started {
		// greeting banner
		g.started = true
		if writesOK {
			vrf.Assert("banner-one-line", len(replies) == 1)
		}
		return
	}
	newCalls := len(mgr.calls) - g.ncalls
	g.ncalls = len(mgr.calls)
	if g.lastCut {
		// the client is gone: nothing may have been delivered for an incomplete line/body
		vrf.Assert("no-delivery-after-cut", newCalls == 0)
		return
	}
	if !writesOK {
		return
	}
	n := len(replies)
	vrf.Assert("one-reply-at-least", n >= 1)
	if n == 0 {
		return
	}
	for i := 0; i < n; i++ {
		r := replies[i]
		ok := len(r) >= 4
		if ok {
			if !vrfDigit(r[0]) {
				ok = false
			}
			if !vrfDigit(r[1]) {
				ok = false
			}
			if !vrfDigit(r[2]) {
				ok = false
			}
			if i == n-1 {
				if r[3] != ' ' {
					ok = false
				}
			} else if r[3] != '-' {
				ok = false
			}
		}
		vrf.Assert("reply-well-formed", ok)
		if !ok {
			return
		}
	}
	cls := replies[n-1][0]
	if g.lastBody >= 0 {
		// end of DATA
		if cls == '2' {
			vrf.Assert("delivered-once-on-250", newCalls == 1)
			if newCalls == 1 {
				c := mgr.calls[len(mgr.calls)-1]
				vrf.Assert("delivered-envelope-recipients", vrfSameList(c.rcpts, g.rcpts))
				vrf.Assert("delivered-envelope-sender", c.from == g.from)
				vrf.Assert("delivered-size", c.size == g.lastBody)
				vrf.Assert("store-error-not-acknowledged", !mgr.failing)
			}
		} else {
			if cls == '4' {
				vrf.Assert("451-only-after-store-error", mgr.failing)
			} else {
				vrf.Assert("no-delivery-when-refused", newCalls == 0)
			}
		}
		g.expectBody = false
		g.inTx = false
		g.rcpts = nil
		g.from = ""
		return
	}
	vrf.Assert("no-delivery-outside-data", newCalls == 0)
	if g.authLeft > 0 {
		g.authLeft--
		return
	}
	switch g.lastKind {
	case kHelo:
		if cls == '2' {
			g.greeted = true
		}
	case kEhlo:
		if cls == '2' {
			g.greeted = true
			g.inTx = false
			g.rcpts = nil
			g.from = ""
		}
	case kMail:
		if cls == '2' {
			vrf.Assert("mail-only-after-greeting", g.greeted)
			g.inTx = true
			g.from = g.lastAddr
			g.rcpts = nil
		}
	case kRcpt:
		if cls == '2' {
			vrf.Assert("rcpt-only-in-transaction", g.inTx)
			g.rcpts = append(g.rcpts, g.lastAddr)
			vrf.Assert("recipient-limit", len(g.rcpts) <= maxRcpt)
		}
	case kData:
		if cls == '3' {
			vrf.Assert("data-only-in-transaction", g.inTx)
			vrf.Assert("data-needs-recipient", len(g.rcpts) >= 1)
			g.expectBody = true
		}
	case kRset:
		g.inTx = false
		g.rcpts = nil
		g.from = ""
	case kQuit:
		if cls == '2' {
			g.quit = true
		}
	case kAuthLogin:
		if cls == '3' {
			g.authLeft = 2
		}
	}
}

func vrfServer(mgr *vrfManager, maxRcpt int, defaultAccept bool) *Server {
	root := &config.Root{
		MailboxNaming: config.FullNaming,
		SMTP: config.SMTP{
			Domain:              "inbucket.local",
			MaxRecipients:       maxRcpt,
			MaxMessageBytes:     5000,
			DefaultAccept:       defaultAccept,
			AcceptDomains:       []string{"d.org"},
			RejectDomains:       []string{"rej.org"},
			RejectOriginDomains: []string{"rejorigin.org"},
			Timeout:             5,
		},
	}
	return NewServer(root.SMTP, mgr, &policy.Addressing{Config: root}, extension.NewHost())
}

var vrfBody = []byte("Subject: hi\n\n.dot\nbody\n")

// vrfPreludes are fixed (concrete) dialogue prefixes that bring the session into a later protocol
// state before the symbolic steps begin; indices into vrfMenu.
var vrfPreludes = [][]int{
	{},
	{1},             // EHLO
	{0, 3},          // HELO, MAIL
	{1, 3, 7},       // EHLO, MAIL, RCPT u1
	{1, 3, 7, 8},    // EHLO, MAIL, RCPT u1, RCPT U1+x (second recipient, may hit the limit)
	{1, 3, 7, 13},   // EHLO, MAIL, RCPT u1, DATA (then the body step)
}

// VerifC03Machine drives the real session loop: first the concrete prelude number `pre`, then k
// scripted client steps chosen from the menu (full != 0: whole menu, else the quick sub-menu), then
// EOF. cut != 0: the last step may end in a disconnect in the middle of the line / message data.
func VerifC03Machine(pre int, k int, full int, cut int) {
	prelude := vrfPreludes[pre]
	k += len(prelude)
	mgr := &vrfManager{failing: vrf.Bool("storeFails")}
	maxRcpt := vrf.Int("maxRcpt", 1, 2)
	srv := vrfServer(mgr, maxRcpt, vrf.Bool("defaultAccept"))
	g := &vrfGhost{lastBody: -1}
	sc := vrf.NewScriptConn()
	nmenu := len(vrfQuickMenu)
	if full != 0 {
		nmenu = len(vrfMenu)
	}
	step := 0
	sc.Next = func() vrf.Step {
		g.check(sc.Replies, mgr, maxRcpt, true)
		sc.Replies = nil
		vrf.Join()
		vrf.Assert("no-read-after-quit", !g.quit)
		g.lastBody = -1
		g.lastCut = false
		if step >= k {
			g.ended = true
			g.lastKind = kOther
			g.lastCut = true
			// the connection ends by EOF, by an idle timeout or by another network error
			switch vrf.Fork(1003 + vrf.Choose("endKind", 3)) {
			case 1004:
				return vrf.Step{Kind: vrf.StepErr, Cut: true}
			case 1005:
				return vrf.Step{Kind: vrf.StepErr}
			}
			return vrf.Step{Kind: vrf.StepEOF}
		}
		// normally every path is at the same step here; if the code under test reads one scripted
		// line in several pieces, paths that are at different steps meet: keep them apart
		step = vrf.Fork(step)
		step++
		last := step == k
		if g.expectBody {
			vrf.Fork(1002)
			g.lastBody = len(vrfBody)
			if last {
				if cut != 0 {
					if vrf.Bool("cutBody") {
						g.lastCut = true
						g.ended = true
						return vrf.Step{Kind: vrf.StepBody, Body: vrfBody, Cut: true}
					}
				}
			}
			return vrf.Step{Kind: vrf.StepBody, Body: vrfBody}
		}
		sel := 0
		if step <= len(prelude) {
			if !g.expectBody {
				sel = prelude[step-1]
				vrf.Fork(2000 + step)
			}
		} else {
			sel = vrf.Fork(vrf.Choose("line"+string(rune('0'+step-len(prelude))), nmenu))
			if full == 0 {
				sel = vrfQuickMenu[sel]
			}
		}
		ln := vrfMenu[sel]
		g.lastKind = ln.kind
		g.lastAddr = ln.addr
		if last {
			if cut != 0 {
				if vrf.Bool("cutLine") {
					// disconnect after a prefix of the line (any byte offset)
					n := vrf.Int("cutAt", 0, 27)
					vrf.Assume(n <= len(ln.text))
					n = vrf.Fork(n)
					g.lastCut = true
					g.ended = true
					return vrf.Step{Kind: vrf.StepLine, Text: ln.text[:n], Cut: true}
				}
			}
		}
		return vrf.Step{Kind: vrf.StepLine, Text: ln.text}
	}
	srv.startSession(1, sc, zerolog.Nop())
	// the session has returned: the loop terminated
	g.check(sc.Replies, mgr, maxRcpt, true)
	vrf.Join()
	vrf.Cover("session-ended")
	vrf.CoverIf("delivered", len(mgr.calls) > 0)
	vrf.CoverIf("quit", g.quit)
	vrf.Assert("conn-closed", sc.Closed)
	vrf.Assert("ended-by-quit-or-eof", g.quit || g.ended)
}
