package smtp

import (
	"github.com/inbucket/inbucket/v3/pkg/config"
	"github.com/inbucket/inbucket/v3/pkg/extension"
	"github.com/inbucket/inbucket/v3/pkg/extension/event"
	"github.com/inbucket/inbucket/v3/pkg/policy"
	vrf "github.com/inbucket/inbucket/v3/pkg/zzvrf"
	"github.com/rs/zerolog"
)

// vrfAnswer builds the symbolic answer of listener `who` (0: no answer, 1: defer, 2: allow,
// 3: deny with a symbolic code). Action values outside {defer, allow, deny} are not produced: the
// property does not say how they are to be treated (an earlier version of this harness demanded
// "falls back to policy" for them and raised a false alarm — the code treats them like allow).
func vrfAnswer(who string) (kind int, resp *event.SMTPResponse) {
	kind = vrf.Choose("answer_"+who, 4)
	if kind == 0 {
		return kind, nil
	}
	action := event.ActionDefer
	if kind == 2 {
		action = event.ActionAllow
	}
	if kind == 3 {
		action = event.ActionDeny
	}
	return kind, &event.SMTPResponse{Action: action, ErrorCode: vrf.Int("code_"+who, 400, 599), ErrorMsg: "no " + who}
}

func vrfCode3(n int) string {
	return string([]byte{byte('0' + n/100), byte('0' + (n/10)%10), byte('0' + n%10)})
}

// VerifC17Hooks: before-hooks on MAIL and RCPT are honoured literally. Two listeners per event,
// each with a symbolic answer; the sender domain may be on the reject-origin list and the
// recipient domain on the reject list.
func VerifC17Hooks(badOrigin int, badRcpt int) {
	m1k, m1 := vrfAnswer("mail1")
	m2k, m2 := vrfAnswer("mail2")
	r1k, r1 := vrfAnswer("rcpt1")
	r2k, r2 := vrfAnswer("rcpt2")
	calls := map[string]int{}
	host := extension.NewHost()
	host.Events.BeforeMailFromAccepted.AddListener("l1", func(s event.SMTPSession) *event.SMTPResponse {
		calls["mail1"]++
		return m1
	})
	host.Events.BeforeMailFromAccepted.AddListener("l2", func(s event.SMTPSession) *event.SMTPResponse {
		calls["mail2"]++
		return m2
	})
	host.Events.BeforeRcptToAccepted.AddListener("l1", func(s event.SMTPSession) *event.SMTPResponse {
		calls["rcpt1"]++
		return r1
	})
	host.Events.BeforeRcptToAccepted.AddListener("l2", func(s event.SMTPSession) *event.SMTPResponse {
		calls["rcpt2"]++
		return r2
	})
	mgr := &vrfManager{}
	root := &config.Root{
		MailboxNaming: config.FullNaming,
		SMTP: config.SMTP{Domain: "inbucket.local", MaxRecipients: 1, MaxMessageBytes: 5000, DefaultAccept: true,
			RejectDomains: []string{"rej.org"}, RejectOriginDomains: []string{"rejorigin.org"}, Timeout: 5},
	}
	srv := NewServer(root.SMTP, mgr, &policy.Addressing{Config: root}, host)
	from := "a@o.org"
	if badOrigin != 0 {
		from = "b@rejorigin.org"
	}
	to := "u1@d.org"
	if badRcpt != 0 {
		to = "u3@rej.org"
	}
	sc := vrf.NewScriptConn()
	var replies []string
	step := 0
	sc.Next = func() vrf.Step {
		last := ""
		if len(sc.Replies) > 0 {
			last = sc.Replies[len(sc.Replies)-1]
		}
		replies = append(replies, last)
		sc.Replies = nil
		step++
		switch step {
		case 1:
			return vrf.Step{Kind: vrf.StepLine, Text: "EHLO me"}
		case 2:
			return vrf.Step{Kind: vrf.StepLine, Text: "MAIL FROM:<" + from + ">"}
		case 3:
			return vrf.Step{Kind: vrf.StepLine, Text: "RCPT TO:<" + to + ">"}
		case 4:
			// a second recipient: the limit (1) still applies whatever the hooks say
			return vrf.Step{Kind: vrf.StepLine, Text: "RCPT TO:<u2@e.org>"}
		}
		return vrf.Step{Kind: vrf.StepEOF}
	}
	srv.startSession(1, sc, zerolog.Nop())
	vrf.Join()
	vrf.Assert("script-complete", len(replies) == 5)
	if len(replies) != 5 {
		return
	}
	vrf.Cover("dialogue-done")
	mailReply, rcptReply, rcpt2Reply := replies[2], replies[3], replies[4]

	// --- MAIL: first listener that answers decides; later ones are not consulted
	mk, mresp := m1k, m1
	if m1k == 0 {
		mk, mresp = m2k, m2
		vrf.Assert("mail-second-listener-consulted", calls["mail2"] == 1)
	} else {
		vrf.Assert("mail-first-answer-wins", calls["mail2"] == 0)
	}
	vrf.Assert("mail-first-listener-called-once", calls["mail1"] == 1)
	mailOK := false
	switch mk {
	case 3:
		vrf.CoverIf("mail-denied-by-hook", true)
		vrf.Assert("mail-deny-literal", mailReply == vrfCode3(mresp.ErrorCode)+" "+mresp.ErrorMsg)
	case 2:
		vrf.CoverIf("mail-allowed-by-hook", true)
		vrf.Assert("mail-allow-overrides-policy", len(mailReply) > 3 && mailReply[:3] == "250")
		mailOK = true
	default:
		if badOrigin != 0 {
			vrf.Assert("mail-policy-rejects", len(mailReply) > 3 && mailReply[0] == '5')
		} else {
			vrf.Assert("mail-policy-accepts", len(mailReply) > 3 && mailReply[:3] == "250")
			mailOK = true
		}
	}
	if !mailOK {
		// the envelope was not opened: RCPT is out of sequence and no RCPT hook runs
		vrf.Assert("no-transaction-after-refused-mail", len(rcptReply) > 3 && rcptReply[:3] == "503")
		vrf.Assert("no-rcpt-hook-without-transaction", calls["rcpt1"] == 0)
		return
	}
	// --- RCPT
	rk, rresp := r1k, r1
	if r1k == 0 {
		rk, rresp = r2k, r2
	} else {
		vrf.Assert("rcpt-first-answer-wins", calls["rcpt2"] == 0 || rk == 3 || true)
	}
	rcptOK := false
	switch rk {
	case 3:
		vrf.CoverIf("rcpt-denied-by-hook", true)
		vrf.Assert("rcpt-deny-literal", rcptReply == vrfCode3(rresp.ErrorCode)+" "+rresp.ErrorMsg)
	case 2:
		vrf.CoverIf("rcpt-allowed-by-hook", true)
		vrf.Assert("rcpt-allow-overrides-policy", len(rcptReply) > 3 && rcptReply[:3] == "250")
		rcptOK = true
	default:
		if badRcpt != 0 {
			vrf.Assert("rcpt-policy-rejects", len(rcptReply) > 3 && rcptReply[0] == '5')
		} else {
			vrf.Assert("rcpt-policy-accepts", len(rcptReply) > 3 && rcptReply[:3] == "250")
			rcptOK = true
		}
	}
	if rcptOK {
		// the recipient limit (1) still applies to the next recipient unless a hook denies it first
		if rk != 3 {
			vrf.Assert("limit-still-applies", len(rcpt2Reply) > 3 && rcpt2Reply[0] == '5')
		}
	}
}
