package web

import (
	"net/http"

	"github.com/gorilla/mux"
	"github.com/inbucket/inbucket/v3/pkg/config"
)

// VerifRouteVars: the route variables a handler sees (Context.Vars, built by the real NewContext)
// when the router extracted vars for req.
func VerifRouteVars(req *http.Request, vars map[string]string) map[string]string {
	if rootConfig == nil {
		rootConfig = &config.Root{}
	}
	ctx, err := NewContext(mux.SetURLVars(req, vars))
	if err != nil {
		return nil
	}
	return ctx.Vars
}
