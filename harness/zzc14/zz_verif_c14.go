// Package zzc14 holds the HTTP handler harnesses (REST v1 and web UI handlers over the real
// StoreManager and memory store).
package zzc14

import (
	"encoding/json"
	"io"
	"net/http"
	"net/mail"
	"time"

	"github.com/inbucket/inbucket/v3/pkg/config"
	"github.com/inbucket/inbucket/v3/pkg/extension"
	"github.com/inbucket/inbucket/v3/pkg/message"
	"github.com/inbucket/inbucket/v3/pkg/policy"
	"github.com/inbucket/inbucket/v3/pkg/rest"
	"github.com/inbucket/inbucket/v3/pkg/rest/model"
	"github.com/inbucket/inbucket/v3/pkg/server/web"
	"github.com/inbucket/inbucket/v3/pkg/storage"
	"github.com/inbucket/inbucket/v3/pkg/storage/file"
	"github.com/inbucket/inbucket/v3/pkg/storage/mem"
	"github.com/inbucket/inbucket/v3/pkg/webui"
	vrf "github.com/inbucket/inbucket/v3/pkg/zzvrf"
)

type inMsg struct {
	mailbox string
	subject string
	src     []byte
}

func (m *inMsg) Mailbox() string                { return m.mailbox }
func (m *inMsg) ID() string                     { return "" }
func (m *inMsg) From() *mail.Address            { return &mail.Address{Address: "from@x.org"} }
func (m *inMsg) To() []*mail.Address            { return []*mail.Address{{Address: "to@y.org"}} }
func (m *inMsg) Date() time.Time                { return time.Unix(0, 1700000000000000000) }
func (m *inMsg) Subject() string                { return m.subject }
func (m *inMsg) Source() (io.ReadCloser, error) { return &vrf.ByteSource{Data: m.src}, nil }
func (m *inMsg) Size() int64                    { return int64(len(m.src)) }
func (m *inMsg) Seen() bool                     { return false }

type handler func(http.ResponseWriter, *http.Request, *web.Context) error

// serve mimics web.Handler.ServeHTTP: an error from the handler becomes a 500.
func serve(h handler, mgr message.Manager, vars map[string]string, body io.ReadCloser) *vrf.RecWriter {
	w := vrf.NewRecWriter()
	req := &http.Request{Method: "GET", Host: "localhost", Header: http.Header{}, Body: body}
	ctx := &web.Context{Vars: vars, Manager: mgr, RootConfig: &config.Root{}}
	if err := h(w, req, ctx); err != nil {
		w.WriteHeader(500)
	}
	return w
}

// the address by which the client names the mailbox: the canonical name or an alias of it
var nameMenu = []string{"box", "BOX", "box+tag@d.org", "other", "b@d@"}

var idMenu = []string{"1", "2", "latest", "9", ""}

func showOf(w *vrf.RecWriter) *model.JSONMessageV1 {
	if vrf.Symbolic() {
		if v, ok := w.Value.(*model.JSONMessageV1); ok {
			return v
		}
		return nil
	}
	out := &model.JSONMessageV1{}
	if json.Unmarshal(w.Body, out) != nil {
		return nil
	}
	return out
}

func listOf(w *vrf.RecWriter) []*model.JSONMessageHeaderV1 {
	var out []*model.JSONMessageHeaderV1
	if vrf.Symbolic() {
		if v, ok := w.Value.([]*model.JSONMessageHeaderV1); ok {
			return v
		}
		return nil
	}
	json.Unmarshal(w.Body, &out)
	return out
}

// VerifC14Handlers: a memory store holding m messages in mailbox "box"; one request (handler h,
// name and id chosen symbolically from the menus) through a REST v1 or web UI handler over the
// real StoreManager. The response must report exactly what the store holds: 404 exactly for a
// message that does not exist, 200 with the store's data otherwise, mutations do exactly what the
// route says, no handler panics, and the mailbox is found under every alias of its name (C04).
func VerifC14Handlers(m int, h int, backend int) {
	defer vrf.VfsCleanup()
	root := &config.Root{MailboxNaming: config.LocalNaming}
	ap := &policy.Addressing{Config: root}
	var st storage.Store
	var err error
	if backend == 1 {
		// file store (file-system model under the engine, a real temporary directory natively)
		st, err = file.New(config.Storage{Params: map[string]string{"path": vrf.VfsTempDir()}}, extension.NewHost())
	} else {
		st, err = mem.New(config.Storage{}, extension.NewHost())
	}
	if err != nil {
		return
	}
	mgr := &message.StoreManager{AddrPolicy: ap, Store: st, ExtHost: extension.NewHost()}
	var ids []string
	for i := 0; i < m; i++ {
		id, aerr := st.AddMessage(&inMsg{mailbox: "box", subject: "s" + string(rune('1'+i)), src: []byte("H: v\r\n\r\nbody" + string(rune('1'+i)) + "\n")})
		if aerr != nil {
			return
		}
		ids = append(ids, id)
	}
	name := nameMenu[vrf.Fork(vrf.Choose("name", len(nameMenu)))]
	idm := idMenu
	if backend == 1 {
		// file-store ids are timestamps: the menu holds the ids actually issued
		idm = []string{"20200101T000000-0001", "20200101T000000-0002", "latest", "9", ""}
		for i := range ids {
			if i < 2 {
				idm[i] = ids[i]
			}
		}
	}
	id := idm[vrf.Fork(vrf.Choose("id", len(idm)))]
	num := "0"
	if h == 9 {
		// attachment number (any non-empty path segment reaches the handler): in range there is
		// none (the messages have no attachments), so every spelling - negative, not a number,
		// too large - must be answered with an error status
		numMenu := []string{"0", "1", "-1", "x", "4294967296"}
		num = numMenu[vrf.Fork(vrf.Choose("num", len(numMenu)))]
	}
	vars := map[string]string{"name": name, "id": id, "num": num}
	canon, cerr := ap.ExtractMailbox(name)
	isBox := cerr == nil && canon == "box"
	// does the addressed message exist?
	exists := false
	idx := -1
	if isBox {
		for i, x := range ids {
			if x == id {
				exists, idx = true, i
			}
		}
		if id == "latest" && m > 0 {
			exists, idx = true, m-1
		}
	}
	before, _ := st.GetMessages("box")
	nBefore := len(before)
	var w *vrf.RecWriter
	switch h {
	case 0: // REST list
		w = serve(rest.MailboxListV1, mgr, vars, nil)
		if cerr != nil {
			vrf.Assert("bad-name-is-error", w.Code() >= 400)
			break
		}
		vrf.Assert("list-200", w.Code() == 200)
		l := listOf(w)
		if isBox {
			vrf.CoverIf("listed-by-alias", name != "box")
			vrf.Assert("list-length", len(l) == m)
			if len(l) == m {
				for i := range l {
					vrf.Assert("list-id", l[i].ID == ids[i])
					vrf.Assert("list-mailbox", l[i].Mailbox == "box")
					vrf.Assert("list-subject", l[i].Subject == "s"+string(rune('1'+i)))
					vrf.Assert("list-size", l[i].Size == int64(len("H: v\r\n\r\nbody1\n")))
					vrf.Assert("list-seen", !l[i].Seen)
				}
			}
		} else {
			vrf.Assert("other-mailbox-empty", len(l) == 0)
		}
	case 1, 6: // REST show / web UI message
		if h == 1 {
			w = serve(rest.MailboxShowV1, mgr, vars, nil)
		} else {
			w = serve(webui.MailboxMessage, mgr, vars, nil)
		}
		if cerr != nil {
			vrf.Assert("bad-name-is-error", w.Code() >= 400)
			break
		}
		if exists {
			vrf.CoverIf("show-existing", true)
			vrf.Assert("show-200", w.Code() == 200)
			if h == 1 && w.Code() == 200 {
				// the shown message carries the store's identity and metadata (also when it was
				// asked for as 'latest')
				m := showOf(w)
				vrf.Assert("show-payload", m != nil)
				if m != nil {
					vrf.Assert("show-id-is-the-stores-id", m.ID == ids[idx])
					vrf.Assert("show-subject", m.Subject == "s"+string(rune('1'+idx)))
					vrf.Assert("show-size", m.Size == int64(len("H: v\r\n\r\nbody1\n")))
					vrf.Assert("show-seen", !m.Seen)
				}
			}
		} else {
			vrf.Assert("show-missing-404", w.Code() == 404)
		}
	case 2, 7: // REST source / web UI source
		if h == 2 {
			w = serve(rest.MailboxSourceV1, mgr, vars, nil)
		} else {
			w = serve(webui.MailboxSource, mgr, vars, nil)
		}
		if cerr != nil {
			vrf.Assert("bad-name-is-error", w.Code() >= 400)
			break
		}
		if exists {
			vrf.Assert("source-200", w.Code() == 200)
			want := "H: v\r\n\r\nbody" + string(rune('1'+idx)) + "\n"
			vrf.Assert("source-bytes-exact", string(w.Body) == want)
			vrf.CoverIf("source-served", true)
		} else {
			vrf.Assert("source-missing-404", w.Code() == 404)
		}
	case 3: // REST mark seen
		body := &vrf.SeenBody{Empty: vrf.Bool("emptyBody"), Seen: vrf.Bool("seenValue")}
		w = serve(rest.MailboxMarkSeenV1, mgr, vars, body)
		if cerr != nil {
			vrf.Assert("bad-name-is-error", w.Code() >= 400)
			break
		}
		if body.Empty {
			vrf.Assert("no-body-is-error", w.Code() >= 400)
		} else if id == "latest" {
			// whether the 'latest' alias applies to mutations is not fixed by the property
		} else if body.Seen {
			if exists {
				vrf.Assert("markseen-200", w.Code() == 200)
				got, _ := st.GetMessage("box", ids[idx])
				vrf.Assert("markseen-effect", got != nil && got.Seen())
				vrf.CoverIf("marked", true)
			} else {
				vrf.Assert("markseen-missing-404", w.Code() == 404)
			}
		} else {
			vrf.Assert("seen-false-is-noop-200", w.Code() == 200)
		}
	case 4: // REST delete
		w = serve(rest.MailboxDeleteV1, mgr, vars, nil)
		if cerr != nil {
			vrf.Assert("bad-name-is-error", w.Code() >= 400)
			break
		}
		after, _ := st.GetMessages("box")
		if exists && id != "latest" {
			vrf.Assert("delete-200", w.Code() == 200)
			vrf.Assert("delete-removes-one", len(after) == nBefore-1)
			for _, a := range after {
				vrf.Assert("delete-removes-that-one", a.ID() != ids[idx])
			}
			vrf.CoverIf("deleted", true)
		} else if !exists && id != "latest" {
			vrf.Assert("delete-missing-404", w.Code() == 404)
			vrf.Assert("delete-missing-no-effect", len(after) == nBefore)
		}
	case 5: // REST purge
		w = serve(rest.MailboxPurgeV1, mgr, vars, nil)
		if cerr != nil {
			vrf.Assert("bad-name-is-error", w.Code() >= 400)
			break
		}
		vrf.Assert("purge-200", w.Code() == 200)
		after, _ := st.GetMessages("box")
		if isBox {
			vrf.Assert("purge-empties", len(after) == 0)
		} else {
			vrf.Assert("purge-other-untouched", len(after) == nBefore)
		}
	case 8: // web UI HTML
		w = serve(webui.MailboxHTML, mgr, vars, nil)
		if cerr == nil {
			if exists {
				vrf.Assert("html-200", w.Code() == 200)
			} else {
				vrf.Assert("html-missing-404", w.Code() == 404)
			}
		}
	case 9: // web UI attachment view
		w = serve(webui.MailboxViewAttach, mgr, vars, nil)
		if cerr == nil {
			if !exists && (num == "0" || num == "1") {
				vrf.Assert("attach-missing-404", w.Code() == 404)
			} else {
				vrf.Assert("attach-out-of-range-is-error-not-panic", w.Code() >= 400)
			}
		}
	}
	vrf.Join()
	vrf.Cover("request-served")
	_ = storage.ErrNotExist
}
