package file

import (
	"context"
	"io"
	"net/mail"
	"os"
	"time"

	"github.com/inbucket/inbucket/v3/pkg/config"
	"github.com/inbucket/inbucket/v3/pkg/extension"
	"github.com/inbucket/inbucket/v3/pkg/extension/event"
	"github.com/inbucket/inbucket/v3/pkg/storage"
	vrf "github.com/inbucket/inbucket/v3/pkg/zzvrf"
)

type vrfIn struct {
	mailbox string
	subject string
	from    *mail.Address
	to      []*mail.Address
	date    time.Time
	src     []byte
}

func (m *vrfIn) Mailbox() string                { return m.mailbox }
func (m *vrfIn) ID() string                     { return "ignored" }
func (m *vrfIn) From() *mail.Address            { return m.from }
func (m *vrfIn) To() []*mail.Address            { return m.to }
func (m *vrfIn) Date() time.Time                { return m.date }
func (m *vrfIn) Subject() string                { return m.subject }
func (m *vrfIn) Source() (io.ReadCloser, error) { return &vrf.ByteSource{Data: m.src}, nil }
func (m *vrfIn) Size() int64                    { return 777 } // must be ignored by the store
func (m *vrfIn) Seen() bool                     { return false }

var _ storage.Message = &vrfIn{}

// VerifFileSmoke: one delivery, read back.
func VerifFileSmoke() {
	dir := vrf.VfsTempDir()
	defer os.RemoveAll(dir)
	st, err := New(config.Storage{Params: map[string]string{"path": dir}}, extension.NewHost())
	vrf.Assert("new-noerr", err == nil)
	if err != nil {
		return
	}
	b0 := vrf.Byte("b0")
	id, aerr := st.AddMessage(&vrfIn{mailbox: "alpha", subject: "s1", from: &mail.Address{Address: "f@x"},
		to: []*mail.Address{{Name: "T", Address: "t@x"}}, date: time.Unix(1000, 0), src: []byte{b0, 'x'}})
	vrf.Assert("add-noerr", aerr == nil)
	ms, lerr := st.GetMessages("alpha")
	vrf.Assert("list-noerr", lerr == nil)
	vrf.Assert("list-one", len(ms) == 1)
	if len(ms) == 1 {
		m := ms[0]
		vrf.Assert("id", m.ID() == id)
		vrf.Assert("mailbox", m.Mailbox() == "alpha")
		vrf.Assert("subject", m.Subject() == "s1")
		vrf.Assert("size", m.Size() == 2)
		vrf.Assert("from", m.From() != nil && m.From().Address == "f@x")
		vrf.Assert("to", len(m.To()) == 1 && m.To()[0].Name == "T")
		vrf.Assert("date", m.Date().Equal(time.Unix(1000, 0)))
		rc, serr := m.Source()
		vrf.Assert("source-noerr", serr == nil)
		if serr == nil {
			data, _ := vrf.ReadAll(rc)
			rc.Close()
			vrf.Assert("content", len(data) == 2 && data[0] == b0 && data[1] == 'x')
		}
	}
	vrf.Cover("smoke-done")
}

// ---- reference model ----

type vrfRefMsg struct {
	id   string
	subj string
	b0   byte
	old  bool // delivered with a Date two hours in the past
	seen bool
}

type vrfRef struct {
	boxes   map[string][]vrfRefMsg
	issued  map[string][]string // every id returned per mailbox (since the last restart: the live ones)
	touched map[string]int      // step of the last mutation per mailbox
	gone    []string            // box+"/"+id of every message that left
	// ids handed out by the current process (the state of the id generator) and the step at which
	// that process started (which generator channel is the live one)
	sinceRestart int
	restartStep  int
}

// vrfNames: 0 = two unrelated names; 1 = two names whose SHA-1 share the first 3 hex digits (same
// level-1 directory, same lock of the HashLock); 2 = two names sharing the first 6 hex digits (same
// level-1 and level-2 directories).
func vrfNames(nset int) []string {
	switch nset {
	case 1:
		return []string{"u47", "u122"}
	case 2:
		return []string{"u1636", "u4278"}
	}
	return []string{"alpha", "b@x.org"}
}

func (r *vrfRef) find(box, id string) int {
	l := r.boxes[box]
	if id == "latest" {
		return len(l) - 1
	}
	for i := range l {
		if l[i].id == id {
			return i
		}
	}
	return -1
}

func vrfMixInt(h, v int) int { return (h*1000003 + v + 12345) % 998244353 }

// shape: per mailbox the live ids, seen flags, age class and the step of its last mutation; the
// number of ids issued. Paths with equal shapes have identical disk structure and merge.
func (r *vrfRef) shape(names []string) int {
	h := 7
	for _, nm := range names {
		h = vrfMixInt(h, r.touched[nm])
		for _, m := range r.boxes[nm] {
			for i := 0; i < len(m.id); i++ {
				h = vrfMixInt(h, int(m.id[i]))
			}
			v := 1
			if m.seen {
				v += 2
			}
			if m.old {
				v += 4
			}
			h = vrfMixInt(h, v)
		}
		h = vrfMixInt(h, 99)
	}
	for _, nm := range names {
		h = vrfMixInt(h, len(r.issued[nm]))
	}
	return vrfMixInt(vrfMixInt(h, r.sinceRestart), r.restartStep)
}

func (r *vrfRef) drop(box string, i int) {
	l := r.boxes[box]
	r.gone = append(r.gone, box+"/"+l[i].id)
	r.boxes[box] = append(append([]vrfRefMsg(nil), l[:i]...), l[i+1:]...)
}

var vrfBase = time.Unix(1700000000, 0)

func vrfDate(now time.Time, old bool, step int) time.Time {
	if old {
		return now.Add(-2*time.Hour - time.Duration(step)*time.Second)
	}
	return now.Add(-time.Duration(10-step) * time.Second)
}

// compare asserts that the store shows exactly the reference content of box, oldest arrival first,
// with ids, metadata, flags, sizes and content.
func (r *vrfRef) compare(st storage.Store, box string, now time.Time, steps map[string]int) {
	ms, err := st.GetMessages(box)
	vrf.Assert("list-noerr", err == nil)
	want := r.boxes[box]
	vrf.Assert("list-length", len(ms) == len(want))
	if err != nil || len(ms) != len(want) {
		return
	}
	for i := range want {
		m := ms[i]
		w := want[i]
		vrf.Assert("list-id-order", m.ID() == w.id)
		vrf.Assert("list-mailbox", m.Mailbox() == box)
		vrf.Assert("list-subject", m.Subject() == w.subj)
		vrf.Assert("list-size", m.Size() == 2)
		vrf.Assert("list-seen", m.Seen() == w.seen)
		vrf.Assert("list-date", m.Date().Equal(vrfDate(now, w.old, steps[box+"/"+w.id])))
		vrf.Assert("list-from", m.From() != nil && m.From().Address == "f"+w.subj+"@x" && m.From().Name == "")
		vrf.Assert("list-to", len(m.To()) == 1 && m.To()[0] != nil && m.To()[0].Name == "T" && m.To()[0].Address == box)
		rc, serr := m.Source()
		vrf.Assert("source-noerr", serr == nil)
		if serr == nil {
			data, rerr := vrf.ReadAll(rc)
			rc.Close()
			vrf.Assert("content", rerr == nil && len(data) == 2 && data[0] == w.b0 && data[1] == '\n')
		}
	}
}

// VerifC10History: k symbolic operations on a file store - deliver (fresh or old date), mark seen,
// remove, purge, get, visit, retention scan and *reopen* (a new Store object on the same path, any
// number of times) - compared after every step with a reference model: every mailbox lists the same
// messages in arrival order with the same ids, metadata, flags, sizes and content; removed, purged,
// evicted and expired messages stay gone; one deleted event per departure. pre: 1 = one prelude
// message per mailbox, 2 = two in the first mailbox; recap > 0: the store is reopened with that cap.
func VerifC10History(k int, mcap int, pre int, nset int, recap int) {
	dir := vrf.VfsTempDir()
	defer os.RemoveAll(dir)
	host := extension.NewHost()
	var events []string
	host.Events.AfterMessageDeleted.AddListener("vrf", func(m event.MessageMetadata) {
		events = append(events, m.Mailbox+"/"+m.ID)
	})
	cfg := config.Storage{MailboxMsgCap: mcap, Params: map[string]string{"path": dir},
		RetentionPeriod: time.Hour}
	st, err := New(cfg, host)
	vrf.Assert("new-noerr", err == nil)
	if err != nil {
		return
	}
	now := time.Now()
	ref := &vrfRef{boxes: map[string][]vrfRefMsg{}, touched: map[string]int{}, issued: map[string][]string{}}
	steps := map[string]int{}
	names := vrfNames(nset)
	if pre > 0 {
		// concrete prelude: one fresh message in each mailbox (steps 8 and 9 for the dates)
		pnames := names
		if pre == 2 {
			// both prelude messages go to the first mailbox (two ids issued in the same second)
			pnames = []string{names[0], names[0]}
		}
		for i, nm := range pnames {
			sfx := string(rune('8' + i))
			b0 := vrf.Byte("byte" + sfx)
			nid, aerr := st.AddMessage(&vrfIn{mailbox: nm, subject: "s" + sfx, from: &mail.Address{Address: "fs" + sfx + "@x"},
				to: []*mail.Address{{Name: "T", Address: nm}}, date: vrfDate(now, false, 8+i), src: []byte{b0, '\n'}})
			vrf.Assert("add-noerr", aerr == nil)
			ref.issued[nm] = append(ref.issued[nm], nid)
			ref.sinceRestart++
			steps[nm+"/"+nid] = 8 + i
			ref.boxes[nm] = append(ref.boxes[nm], vrfRefMsg{id: nid, subj: "s" + sfx, b0: b0})
		}
	}
	for step := 1; step <= k; step++ {
		sfx := string(rune('0' + step))
		op := vrf.Fork(vrf.Choose("op"+sfx, 8))
		box := names[vrf.Fork(vrf.Choose("box"+sfx, len(names)))]
		pick := vrf.Fork(vrf.Choose("pick"+sfx, 3)) // which message (0,1 = index; 2 = a missing id)
		id := "20200101T000000-9999"
		if pick < len(ref.boxes[box]) {
			id = ref.boxes[box][pick].id
		}
		switch op {
		case 0: // deliver
			b0 := vrf.Byte("byte" + sfx)
			old := pick == 1
			nid, aerr := st.AddMessage(&vrfIn{mailbox: box, subject: "s" + sfx, from: &mail.Address{Address: "fs" + sfx + "@x"},
				to: []*mail.Address{{Name: "T", Address: box}}, date: vrfDate(now, old, step), src: []byte{b0, '\n'}})
			vrf.Assert("add-noerr", aerr == nil)
			for _, o := range ref.issued[box] {
				vrf.Assert("id-never-reused", o != nid)
			}
			ref.issued[box] = append(ref.issued[box], nid)
			ref.sinceRestart++
			steps[box+"/"+nid] = step
			if mcap > 0 {
				for len(ref.boxes[box]) >= mcap {
					ref.drop(box, 0)
					vrf.CoverIf("cap-eviction", true)
				}
			}
			ref.boxes[box] = append(ref.boxes[box], vrfRefMsg{id: nid, subj: "s" + sfx, b0: b0, old: old})
			ref.touched[box] = step
		case 1: // get (by id or latest)
			gid := id
			if pick == 1 {
				gid = "latest"
			}
			m, gerr := st.GetMessage(box, gid)
			i := ref.find(box, gid)
			if i >= 0 {
				vrf.Assert("get-existing-ok", gerr == nil && m != nil)
				if gerr == nil && m != nil {
					vrf.Assert("get-id", m.ID() == ref.boxes[box][i].id)
				}
			} else {
				vrf.Assert("get-missing-is-notexist", gerr == storage.ErrNotExist)
			}
		case 2: // mark seen
			serr := st.MarkSeen(box, id)
			if i := ref.find(box, id); i >= 0 {
				vrf.Assert("markseen-ok", serr == nil)
				if !ref.boxes[box][i].seen {
					ref.boxes[box][i].seen = true
					ref.touched[box] = step
				}
			} else {
				vrf.Assert("markseen-missing-is-notexist", serr == storage.ErrNotExist)
				if len(ref.boxes[box]) > 0 {
					ref.touched[box] = step // the index is rewritten all the same
				}
			}
		case 3: // remove
			rerr := st.RemoveMessage(box, id)
			if i := ref.find(box, id); i >= 0 {
				vrf.CoverIf("remove-existing", true)
				vrf.Assert("remove-ok", rerr == nil)
				ref.drop(box, i)
				ref.touched[box] = step
			} else {
				vrf.Assert("remove-missing-is-notexist", rerr == storage.ErrNotExist)
			}
		case 4: // purge
			vrf.Assert("purge-ok", st.PurgeMessages(box) == nil)
			for len(ref.boxes[box]) > 0 {
				ref.drop(box, 0)
			}
			ref.touched[box] = step
		case 5: // visit
			seen := map[string]int{}
			verr := st.VisitMailboxes(func(ms []storage.Message) bool {
				if len(ms) > 0 {
					seen[ms[0].Mailbox()]++
					vrf.Assert("visit-length", len(ms) == len(ref.boxes[ms[0].Mailbox()]))
				}
				return true
			})
			vrf.Assert("visit-noerr", verr == nil)
			for _, nm := range names {
				if len(ref.boxes[nm]) > 0 {
					vrf.Assert("visit-each-nonempty-once", seen[nm] == 1)
				} else {
					vrf.Assert("visit-no-phantom", seen[nm] == 0)
				}
			}
			// a visitor that says stop is not called again
			calls := 0
			st.VisitMailboxes(func(ms []storage.Message) bool { calls++; return false })
			vrf.Assert("visit-stops-when-told", calls <= 1)
		case 6: // retention scan (period 1h): messages older than the cut-off go, the others stay
			rs := storage.NewRetentionScanner(cfg, st)
			vrf.Assert("scan-noerr", rs.DoScan(context.Background()) == nil)
			for _, nm := range names {
				for i := 0; i < len(ref.boxes[nm]); {
					if ref.boxes[nm][i].old {
						ref.drop(nm, i)
						ref.touched[nm] = step
						vrf.CoverIf("retention-expired", true)
					} else {
						i++
					}
				}
			}
		case 7: // restart: what a new process has - the id counter starts again from 0 (package
			// initialisation) and a fresh Store object is opened on the same path
			countChannel = make(chan int, 10)
			go countGenerator(countChannel)
			// the new process cannot know which ids its predecessor handed out to messages that have
			// left since: "never reused" is asked of the ids the current process issues; that a
			// new id never collides with a message still in the mailbox is part of the comparison
			// with the reference after every step (ids, order, content)
			ref.sinceRestart = 0
			ref.restartStep = step
			for _, nm := range names {
				ref.issued[nm] = nil
			}
			if recap > 0 {
				// the restarted server is configured with a different mailbox cap
				mcap = recap
				cfg.MailboxMsgCap = recap
			}
			st2, nerr := New(cfg, host)
			vrf.Assert("reopen-noerr", nerr == nil)
			if nerr != nil {
				return
			}
			st = st2
			vrf.CoverIf("reopened-nonempty", len(ref.boxes[names[0]])+len(ref.boxes[names[1]]) > 0)
		}
		for _, nm := range names {
			ref.compare(st, nm, now, steps)
		}
		vrf.Quiesce()
		vrf.Assert("deleted-event-count", len(events) == len(ref.gone))
		for _, g := range ref.gone {
			n := 0
			for _, e := range events {
				if e == g {
					n++
				}
			}
			vrf.Assert("exactly-one-deleted-event-per-departure", n == 1)
		}
		if step < k {
			vrf.Regroup(ref.shape(names))
		}
	}
	vrf.Cover("history-done")
}
