package file

import (
	"context"
	"net/mail"
	"os"
	"time"

	"github.com/inbucket/inbucket/v3/pkg/config"
	"github.com/inbucket/inbucket/v3/pkg/extension"
	"github.com/inbucket/inbucket/v3/pkg/storage"
	vrf "github.com/inbucket/inbucket/v3/pkg/zzvrf"
)

// VerifC09FileRace: two operations on the same file-store mailbox run concurrently (the mailbox
// holds one message m1): scenario 0 = MarkSeen(m1) with a delivery, 1 = RemoveMessage(m1) with a
// delivery, 2 = two deliveries, 3 = MarkSeen(m1) with PurgeMessages. Under every explored schedule
// (run-to-block plus up to `pre` pre-emptions before lock acquisitions and channel sends) both
// return without error / panic / deadlock and the mailbox afterwards is what some serial order of
// the two operations gives: no delivered message lost, no removed message back, the seen flag
// kept.
func VerifC09FileRace(scn int, pre int) {
	iters := 1
	if !vrf.Symbolic() {
		iters = 100
		if scn == 5 {
			iters = 8 // each round repeats the race 300 times itself
		}
	}
	for it := 0; it < iters; it++ {
		vrfFileRaceOnce(scn, pre)
	}
	vrf.Cover("file-race-done")
}

// vrfSibling hashes into the same level-1 directory (and lock bucket) as "alpha".
const vrfSibling = "u269"

func vrfFileRaceOnce(scn int, pre int) {
	dir := vrf.VfsTempDir()
	defer os.RemoveAll(dir)
	st, err := New(config.Storage{Params: map[string]string{"path": dir}}, extension.NewHost())
	if err != nil {
		vrf.Assert("new-noerr", false)
		return
	}
	mk := func(tag string) *vrfIn {
		d := time.Now()
		if tag == "1" && scn == 4 {
			d = time.Unix(1000, 0)
		}
		return &vrfIn{mailbox: "alpha", subject: "s" + tag, from: &mail.Address{Address: "f@x"},
			to: []*mail.Address{{Address: "alpha"}}, date: d, src: []byte{'x', '\n'}}
	}
	id1, perr := st.AddMessage(mk("1"))
	vrf.Assert("prelude-noerr", perr == nil)
	vrf.Preemptions(pre)
	if scn == 4 || scn == 5 || scn == 6 {
		// every file-system mutation of the store is a scheduling point too: the other goroutine
		// may run while this one is in the middle of an update, holding the mailbox lock
		if scn == 5 || scn == 6 {
			CrashHook = func(site, path string) { vrf.PreemptPoint() }
		} else {
			CrashHook = func(site, path string) { vrf.Yield() }
		}
		defer func() { CrashHook = nil }()
	}
	done := make(chan error, 2)
	var idA, idB string
	switch scn {
	case 0:
		go func() { done <- st.MarkSeen("alpha", id1) }()
	case 1:
		go func() { done <- st.RemoveMessage("alpha", id1) }()
	case 2:
		go func() {
			id, aerr := st.AddMessage(mk("B"))
			idB = id
			done <- aerr
		}()
	case 3:
		go func() { done <- st.MarkSeen("alpha", id1) }()
	case 4:
		// a retention scan (period 1 h; m1 is dated 1970) against a delivery to the same mailbox
		go func() {
			rs := storage.NewRetentionScanner(config.Storage{RetentionPeriod: time.Hour}, st)
			done <- rs.DoScan(context.Background())
		}()
	}
	if scn == 6 {
		// two clients mark two different messages of the same mailbox as seen at the same time
		id2, perr2 := st.AddMessage(mk("2"))
		vrf.Assert("prelude-noerr", perr2 == nil)
		idB = id2
		go func() { done <- st.MarkSeen("alpha", id1) }()
		go func() { done <- st.MarkSeen("alpha", id2) }()
	} else if scn == 5 {
		// the mailbox is emptied (its directory and empty parents are removed) while a sibling
		// mailbox - same level-1 directory, same lock bucket - gets its first message
		rounds := 1
		if !vrf.Symbolic() {
			// natively the window is a few microseconds: each goroutine repeats its half of the
			// race (empty the mailbox, fill it again / fill the sibling, empty it again)
			rounds = 300
		}
		go func() {
			var err error
			for r := 0; r < rounds && err == nil; r++ {
				err = st.PurgeMessages("alpha")
				if err == nil && r+1 < rounds {
					_, err = st.AddMessage(mk("R"))
				}
			}
			done <- err
		}()
		go func() {
			var err error
			for r := 0; r < rounds && err == nil; r++ {
				m := mk("S")
				m.mailbox = vrfSibling
				_, err = st.AddMessage(m)
				if err == nil && r+1 < rounds {
					err = st.PurgeMessages(vrfSibling)
				}
			}
			done <- err
		}()
	} else if scn == 3 {
		go func() { done <- st.PurgeMessages("alpha") }()
	} else {
		go func() {
			id, aerr := st.AddMessage(mk("A"))
			idA = id
			done <- aerr
		}()
	}
	for got := 0; got < 2; got++ {
		select {
		case e := <-done:
			if scn == 3 {
				// MarkSeen after the purge legitimately reports the id as gone
				continue
			}
			vrf.Assert("concurrent-operations-succeed", e == nil)
		case <-time.After(3 * time.Second):
			vrf.Assert("concurrent-operations-return", false)
			return
		}
	}
	ms, lerr := st.GetMessages("alpha")
	vrf.Assert("list-noerr", lerr == nil)
	if lerr != nil {
		return
	}
	has := func(id string) (bool, bool) {
		for _, m := range ms {
			if m.ID() == id {
				return true, m.Seen()
			}
		}
		return false, false
	}
	switch scn {
	case 0:
		p1, s1 := has(id1)
		pa, _ := has(idA)
		vrf.Assert("delivered-message-not-lost", pa)
		vrf.Assert("marked-message-present-and-seen", p1 && s1)
		vrf.Assert("nothing-else", len(ms) == 2)
	case 1:
		p1, _ := has(id1)
		pa, _ := has(idA)
		vrf.Assert("delivered-message-not-lost", pa)
		vrf.Assert("removed-message-stays-gone", !p1)
		vrf.Assert("nothing-else", len(ms) == 1)
	case 2:
		p1, _ := has(id1)
		pa, _ := has(idA)
		pb, _ := has(idB)
		vrf.Assert("delivered-message-not-lost", pa && pb && p1)
		vrf.Assert("ids-distinct", idA != idB && idA != id1 && idB != id1)
		vrf.Assert("nothing-else", len(ms) == 3)
	case 3:
		vrf.Assert("purged-mailbox-empty", len(ms) == 0)
	case 4:
		p1, _ := has(id1)
		pa, _ := has(idA)
		vrf.Assert("expired-message-removed-by-the-scan", !p1)
		vrf.Assert("delivered-message-not-lost", pa)
	case 6:
		p1, s1 := has(id1)
		p2, s2 := has(idB)
		vrf.Assert("both-messages-present", p1 && p2 && len(ms) == 2)
		vrf.Assert("both-seen-flags-kept", s1 && s2)
	case 5:
		vrf.Assert("purged-mailbox-empty", len(ms) == 0)
		sm, serr := st.GetMessages(vrfSibling)
		vrf.Assert("sibling-delivery-stored", serr == nil && len(sm) == 1)
	}
}
