package file

import (
	"net/mail"
	"os"
	"path/filepath"

	"github.com/inbucket/inbucket/v3/pkg/config"
	"github.com/inbucket/inbucket/v3/pkg/extension"
	"github.com/inbucket/inbucket/v3/pkg/storage"
	vrf "github.com/inbucket/inbucket/v3/pkg/zzvrf"
)

type vrfCrash struct{}

type vrfObs struct {
	id   string
	subj string
	seen bool
	b0   byte
}

// vrfObserve lists a mailbox the way a reader does after the restart: listing must work, and every
// listed message must deliver its complete content.
func vrfObserve(st storage.Store, box string) ([]vrfObs, bool) {
	ms, err := st.GetMessages(box)
	vrf.Assert("after-crash-mailbox-lists-without-error", err == nil)
	if err != nil {
		return nil, false
	}
	var out []vrfObs
	for _, m := range ms {
		o := vrfObs{id: m.ID(), subj: m.Subject(), seen: m.Seen()}
		rc, serr := m.Source()
		vrf.Assert("after-crash-listed-message-has-its-content", serr == nil)
		if serr != nil {
			return nil, false
		}
		data, rerr := vrf.ReadAll(rc)
		rc.Close()
		vrf.Assert("after-crash-listed-message-content-complete", rerr == nil && len(data) == 2 && data[1] == '\n')
		if rerr != nil || len(data) != 2 {
			return nil, false
		}
		o.b0 = data[0]
		vrf.Assert("after-crash-listed-message-metadata", m.Mailbox() == box && m.Size() == 2 && m.From() != nil)
		out = append(out, o)
	}
	return out, true
}

func vrfSame(a, b []vrfObs) bool {
	if len(a) != len(b) {
		return false
	}
	for i := range a {
		if a[i] != b[i] {
			return false
		}
	}
	return true
}

func vrfSortStrings(l []string) {
	for i := 1; i < len(l); i++ {
		for j := i; j > 0 && l[j] < l[j-1]; j-- {
			l[j], l[j-1] = l[j-1], l[j]
		}
	}
}

// VerifC11Crash: a file store holding `pre` messages (pre=1: one in mailbox alpha; pre=2: two in
// alpha; always one in mailbox b@x.org) executes one mutating operation on alpha - op 0 deliver,
// 1 mark the first message seen, 2 remove the first message, 3 purge - and the process dies at the
// crash_at-th crash point of that operation (the hooks in pkg/storage/file, every file-system
// mutation has one before it and every write one after it). A write in flight is torn (symbolic
// prefix: complete index values plus optionally half a value; raw bytes), a recursive removal or
// directory creation in flight is partly done (symbolic subset / depth). Then a fresh Store is
// opened on the directory: every mailbox lists and is visited without error, the other mailbox is
// intact with content, alpha shows either the state before or the state after the operation with
// complete content, and alpha accepts new mail.
func VerifC11Crash(op int, pre int, mcap int, nset int) {
	names := vrfNames(nset)
	box, obox := names[0], names[1]
	dir := vrf.VfsTempDir()
	defer os.RemoveAll(dir)
	cfg := config.Storage{MailboxMsgCap: mcap, Params: map[string]string{"path": dir}}
	st, err := New(cfg, extension.NewHost())
	if err != nil {
		vrf.Assert("new-noerr", false)
		return
	}
	deliver := func(s storage.Store, box, tag string, b0 byte) (string, error) {
		return s.AddMessage(&vrfIn{mailbox: box, subject: "s" + tag, from: &mail.Address{Address: "f" + tag + "@x"},
			to: []*mail.Address{{Name: "T", Address: box}}, date: vrfBase, src: []byte{b0, '\n'}})
	}
	var before []vrfObs
	for i := 0; i < pre; i++ {
		tag := string(rune('a' + i))
		b0 := vrf.Byte("pre_byte_" + tag)
		id, aerr := deliver(st, box, tag, b0)
		vrf.Assert("prelude-noerr", aerr == nil)
		before = append(before, vrfObs{id: id, subj: "s" + tag, b0: b0})
		if mcap > 0 && len(before) > mcap {
			before = before[len(before)-mcap:]
		}
	}
	ob := vrf.Byte("other_byte")
	oid, oerr := deliver(st, obox, "o", ob)
	vrf.Assert("prelude-noerr", oerr == nil)
	other := []vrfObs{{id: oid, subj: "so", b0: ob}}

	// the crash
	crashAt := vrf.Fork(vrf.Int("crash_at", 1, 12))
	count := 0
	CrashHook = func(site, path string) {
		count++
		if count != crashAt {
			return
		}
		switch site {
		case "index-written", "index-tmp-written":
			// the flush was in flight: a prefix of the values reached the disk
			vrf.TearGob(path, vrf.Fork(vrf.Int("torn_values", 0, 4)), vrf.Fork(vrf.Int("torn_partial", 0, 1)) == 1)
		case "add-raw-written":
			vrf.TearRaw(path, vrf.Fork(vrf.Int("torn_bytes", 0, 2)))
		case "mailbox-mkdir":
			// MkdirAll was in flight: the first `depth` missing levels exist
			p3 := path
			p2 := filepath.Dir(p3)
			p1 := filepath.Dir(p2)
			depth := vrf.Fork(vrf.Int("mkdir_depth", 0, 2))
			if depth >= 1 {
				_ = os.Mkdir(p1, 0770)
			}
			if depth >= 2 {
				_ = os.Mkdir(p2, 0770)
			}
		case "mailbox-removeall":
			// RemoveAll was in flight: some entries of the mailbox directory are gone (any subset,
			// directory order is arbitrary)
			if f, oerr := os.Open(path); oerr == nil {
				names, _ := f.Readdirnames(0)
				f.Close()
				vrfSortStrings(names)
				mask := vrf.Fork(vrf.Int("removed_mask", 0, 15))
				for i, nm := range names {
					if i < 4 && mask&(1<<uint(i)) != 0 {
						_ = os.Remove(filepath.Join(path, nm))
					}
				}
			}
		}
		vrf.VfsFreeze()
		panic(vrfCrash{})
	}
	nb := vrf.Byte("new_byte")
	var after []vrfObs
	crashed := false
	func() {
		defer func() {
			if r := recover(); r != nil {
				if _, ok := r.(vrfCrash); !ok {
					panic(r)
				}
				crashed = true
			}
		}()
		switch op {
		case 0:
			id, aerr := deliver(st, box, "n", nb)
			vrf.Assert("op-noerr", aerr == nil)
			after = append(append([]vrfObs(nil), before...), vrfObs{id: id, subj: "sn", b0: nb})
			if mcap > 0 && len(after) > mcap {
				after = after[len(after)-mcap:]
			}
		case 1:
			if len(before) > 0 {
				vrf.Assert("op-noerr", st.MarkSeen(box, before[0].id) == nil)
			}
		case 2:
			if len(before) > 0 {
				vrf.Assert("op-noerr", st.RemoveMessage(box, before[0].id) == nil)
			}
		case 3:
			vrf.Assert("op-noerr", st.PurgeMessages(box) == nil)
		}
	}()
	CrashHook = nil
	vrf.VfsThaw()
	// the state after the completed operation, as far as it is known without the new id
	switch op {
	case 1:
		after = append([]vrfObs(nil), before...)
		if len(after) > 0 {
			after[0].seen = true
		}
	case 2:
		if len(before) > 0 {
			after = append([]vrfObs(nil), before[1:]...)
		}
	case 3:
		after = nil
	}
	vrf.CoverIf("crashed-mid-operation", crashed)
	vrf.CoverIf("operation-completed", !crashed)

	// restart on the directory as it stands: a new process (its id counter starts from 0 again)
	countChannel = make(chan int, 10)
	go countGenerator(countChannel)
	st2, nerr := New(cfg, extension.NewHost())
	vrf.Assert("reopen-noerr", nerr == nil)
	if nerr != nil {
		return
	}
	visited := 0
	verr := st2.VisitMailboxes(func(ms []storage.Message) bool { visited += len(ms); return true })
	vrf.Assert("after-crash-visit-without-error", verr == nil)
	gotOther, ok1 := vrfObserve(st2, obox)
	if ok1 {
		vrf.Assert("after-crash-untouched-mailbox-intact", vrfSame(gotOther, other))
	}
	got, ok2 := vrfObserve(st2, box)
	if !ok2 {
		return
	}
	if !crashed {
		vrf.Assert("completed-operation-visible", vrfSame(got, after))
	} else if op == 0 {
		// the id of an interrupted delivery is not known to the caller: "after" = before (minus
		// cap evictions) plus one complete new message
		isBefore := vrfSame(got, before)
		keep := before
		if mcap > 0 && len(keep) >= mcap {
			keep = keep[len(keep)-mcap+1:]
		}
		isAfter := len(got) == len(keep)+1 && vrfSame(got[:len(keep)], keep) &&
			got[len(keep)].subj == "sn" && got[len(keep)].b0 == nb && !got[len(keep)].seen
		vrf.Assert("after-crash-all-or-nothing", isBefore || isAfter)
	} else {
		vrf.Assert("after-crash-all-or-nothing", vrfSame(got, before) || vrfSame(got, after))
	}
	// the restarted store keeps working on what it found: an update that makes the index shorter
	// (remove the oldest message) or rewrites it (mark it seen) must leave a readable mailbox
	if len(got) > 0 {
		switch vrf.Fork(vrf.Int("after_op", 0, 2)) {
		case 1:
			vrf.Assert("after-crash-remove-works", st2.RemoveMessage(box, got[0].id) == nil)
			got = got[1:]
		case 2:
			vrf.Assert("after-crash-markseen-works", st2.MarkSeen(box, got[0].id) == nil)
			got = append([]vrfObs(nil), got...)
			got[0].seen = true
		}
		got1, ok := vrfObserve(st2, box)
		if !ok {
			return
		}
		vrf.Assert("after-crash-later-update-visible", vrfSame(got1, got))
	}
	// the mailbox accepts new mail
	fb := vrf.Byte("final_byte")
	fid, ferr := deliver(st2, box, "f", fb)
	vrf.Assert("after-crash-accepts-new-mail", ferr == nil)
	if ferr == nil {
		got2, ok3 := vrfObserve(st2, box)
		if ok3 {
			want := append(append([]vrfObs(nil), got...), vrfObs{id: fid, subj: "sf", b0: fb})
			if mcap > 0 && len(want) > mcap {
				want = want[len(want)-mcap:]
			}
			vrf.Assert("after-crash-new-mail-listed-after-the-rest", vrfSame(got2, want))
		}
	}
	vrf.Cover("crash-case-done")
}
