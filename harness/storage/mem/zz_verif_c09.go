package mem

import (
	"time"

	"github.com/inbucket/inbucket/v3/pkg/config"
	"github.com/inbucket/inbucket/v3/pkg/extension"
	vrf "github.com/inbucket/inbucket/v3/pkg/zzvrf"
)

// VerifC09Race: a delivery and a removal of that same message (what a POP3/REST delete or the
// retention scanner does as soon as it sees the message) run concurrently on a memory store,
// optionally with the size enforcer. Under every explored schedule (run-to-block plus up to `pre`
// pre-emptions before channel sends and mutex acquisitions) no goroutine panics, nothing
// deadlocks, the message is present exactly if it was not removed, and the store keeps working.
func VerifC09Race(maxkb int, pre int) {
	iters := 1
	if !vrf.Symbolic() {
		// natively the schedule cannot be dictated: repeat the race (a panic in the enforcer
		// goroutine crashes the process, which is what the replay looks for)
		iters = 400
	}
	for it := 0; it < iters; it++ {
		cfg := config.Storage{}
		if maxkb > 0 {
			cfg.Params = map[string]string{"maxkb": string(rune('0' + maxkb))}
		}
		st, err := New(cfg, extension.NewHost())
		if err != nil {
			return
		}
		vrf.Preemptions(pre)
		done := make(chan bool, 2)
		go func() {
			_, aerr := st.AddMessage(&vrfIn{mailbox: "a", subject: "s", src: vrf.ZeroBytes(300)})
			done <- aerr == nil
		}()
		removed := false
		go func() {
			for try := 0; try < 3; try++ {
				if st.RemoveMessage("a", "1") == nil {
					removed = true
					break
				}
				vrf.Yield()
			}
			done <- true
		}()
		ok1 := <-done
		ok2 := <-done
		vrf.Assert("operations-complete", ok1 && ok2)
		ms, lerr := st.GetMessages("a")
		vrf.Assert("list-noerr", lerr == nil)
		if removed {
			vrf.CoverIf("removed-concurrently", true)
			vrf.Assert("removed-message-gone", len(ms) == 0)
		} else {
			vrf.Assert("delivered-message-present", len(ms) == 1)
		}
		// the store (and its enforcer) still work afterwards
		id2, aerr := st.AddMessage(&vrfIn{mailbox: "a", subject: "t", src: vrf.ZeroBytes(300)})
		vrf.Assert("store-usable-afterwards", aerr == nil)
		got, gerr := st.GetMessage("a", id2)
		vrf.Assert("later-delivery-retrievable", gerr == nil && got != nil)
		vrf.Assert("ids-not-reused", id2 != "1")
	}
	vrf.Cover("race-done")
}

// VerifC09CapSize: mailbox cap and store-wide size limit together, with two deliveries running
// concurrently: one must cap-evict from mailbox "a", the other pushes the store over maxkb while
// the store's oldest message lives in "a" (so the size enforcer wants "a" too). Under every
// explored schedule both deliveries return, nothing panics or deadlocks, the cap and the size limit
// hold afterwards and the store keeps working.
func VerifC09CapSize(pre int) {
	iters := 1
	if !vrf.Symbolic() {
		iters = 200
	}
	for it := 0; it < iters; it++ {
		cfg := config.Storage{MailboxMsgCap: 1, Params: map[string]string{"maxkb": "1"}}
		st, err := New(cfg, extension.NewHost())
		if err != nil {
			return
		}
		_, perr := st.AddMessage(&vrfIn{mailbox: "a", subject: "p", src: vrf.ZeroBytes(500)})
		vrf.Assert("prelude-noerr", perr == nil)
		vrf.Preemptions(pre)
		done := make(chan bool, 2)
		go func() {
			_, aerr := st.AddMessage(&vrfIn{mailbox: "a", subject: "s", src: vrf.ZeroBytes(300)})
			done <- aerr == nil
		}()
		go func() {
			_, aerr := st.AddMessage(&vrfIn{mailbox: "b", subject: "t", src: vrf.ZeroBytes(600)})
			done <- aerr == nil
		}()
		got := 0
		okAll := true
		for got < 2 {
			select {
			case ok := <-done:
				okAll = okAll && ok
				got++
			case <-time.After(3 * time.Second):
				vrf.Assert("concurrent-deliveries-return", false)
				return
			}
		}
		vrf.Assert("operations-complete", okAll)
		// the enforcer has settled once a further (synchronous) delivery has gone through it
		_, aerr := st.AddMessage(&vrfIn{mailbox: "c", subject: "u", src: vrf.ZeroBytes(100)})
		vrf.Assert("store-usable-afterwards", aerr == nil)
		total := 0
		for _, nm := range []string{"a", "b", "c"} {
			ms, lerr := st.GetMessages(nm)
			vrf.Assert("list-noerr", lerr == nil)
			vrf.Assert("cap-holds", len(ms) <= 1)
			for _, m := range ms {
				total += int(m.Size())
			}
		}
		vrf.Assert("size-limit-holds", total <= 1024)
	}
	vrf.Cover("capsize-done")
}

// VerifC09FirstDeliveries: several deliveries to a mailbox that does not exist yet run
// concurrently (two under the engine, eight natively where the schedule cannot be dictated):
// under every explored schedule each acknowledged delivery is in the mailbox afterwards, with its
// own id.
func VerifC09FirstDeliveries(pre int) {
	iters, n := 1, 2
	if !vrf.Symbolic() {
		iters, n = 400, 8
	}
	for it := 0; it < iters; it++ {
		st, err := New(config.Storage{}, extension.NewHost())
		if err != nil {
			return
		}
		vrf.Preemptions(pre)
		done := make(chan string, 8)
		for g := 0; g < n; g++ {
			go func() {
				id, aerr := st.AddMessage(&vrfIn{mailbox: "fresh", subject: "s", src: vrf.ZeroBytes(10)})
				if aerr != nil {
					id = "!"
				}
				done <- id
			}()
		}
		var ids []string
		for g := 0; g < n; g++ {
			select {
			case id := <-done:
				ids = append(ids, id)
			case <-time.After(3 * time.Second):
				vrf.Assert("concurrent-deliveries-return", false)
				return
			}
		}
		ms, lerr := st.GetMessages("fresh")
		vrf.Assert("list-noerr", lerr == nil)
		vrf.Assert("every-acknowledged-delivery-stored", len(ms) == n)
		for i := range ids {
			vrf.Assert("delivery-succeeded", ids[i] != "!")
			for j := 0; j < i; j++ {
				vrf.Assert("ids-distinct", ids[i] != ids[j])
			}
		}
	}
	vrf.Cover("first-deliveries-done")
}

// VerifC09EvictVsRemove: with a store size limit, a client removes the store's oldest message
// while a delivery to another mailbox pushes the store over the limit, so that the enforcer picks
// that same message for eviction. Under every explored schedule both calls return, and the
// accounting stays exact: afterwards a message that fits is delivered without evicting anything.
func VerifC09EvictVsRemove(pre int) {
	iters := 1
	if !vrf.Symbolic() {
		iters = 300
	}
	for it := 0; it < iters; it++ {
		st, err := New(config.Storage{Params: map[string]string{"maxkb": "1"}}, extension.NewHost())
		if err != nil {
			return
		}
		id1, perr := st.AddMessage(&vrfIn{mailbox: "a", subject: "old", src: vrf.ZeroBytes(600)})
		vrf.Assert("prelude-noerr", perr == nil)
		vrf.Preemptions(pre)
		done := make(chan bool, 2)
		go func() {
			st.RemoveMessage("a", id1) // may find it already evicted
			done <- true
		}()
		idb := ""
		go func() {
			id, aerr := st.AddMessage(&vrfIn{mailbox: "b", subject: "big", src: vrf.ZeroBytes(600)})
			idb = id
			done <- aerr == nil
		}()
		for got := 0; got < 2; got++ {
			select {
			case ok := <-done:
				vrf.Assert("concurrent-operations-succeed", ok)
			case <-time.After(3 * time.Second):
				vrf.Assert("concurrent-operations-return", false)
				return
			}
		}
		// a message that fits beside b's (600 + 400 <= 1024): nothing has to go
		idc, cerr := st.AddMessage(&vrfIn{mailbox: "c", subject: "fits", src: vrf.ZeroBytes(400)})
		vrf.Assert("later-delivery-noerr", cerr == nil)
		// one more round trip through the enforcer so that its evictions (if any) have happened
		st.AddMessage(&vrfIn{mailbox: "d", subject: "tiny", src: vrf.ZeroBytes(1)})
		mb, berr := st.GetMessage("b", idb)
		mc, gerr := st.GetMessage("c", idc)
		vrf.Assert("fitting-message-kept", gerr == nil && mc != nil)
		vrf.Assert("nothing-evicted-needlessly", berr == nil && mb != nil)
		ma, _ := st.GetMessages("a")
		vrf.Assert("removed-message-gone", len(ma) == 0)
	}
	vrf.Cover("evict-vs-remove-done")
}
