package mem

import (
	"github.com/inbucket/inbucket/v3/pkg/config"
	"github.com/inbucket/inbucket/v3/pkg/extension"
	"github.com/inbucket/inbucket/v3/pkg/extension/event"
	vrf "github.com/inbucket/inbucket/v3/pkg/zzvrf"
)

// VerifC16Deleted: every message that leaves a mailbox of the memory store — explicit remove,
// purge, mailbox cap, size limit — produces exactly one AfterMessageDeleted event carrying its
// mailbox and id; messages that stay produce none. (Stored events are emitted by
// StoreManager.Deliver and are checked by the Deliver harness.)
func VerifC16Deleted(k int, mcap int, maxkb int) {
	cfg := config.Storage{MailboxMsgCap: mcap}
	if maxkb > 0 {
		cfg.Params = map[string]string{"maxkb": string(rune('0' + maxkb))}
	}
	host := extension.NewHost()
	var events []event.MessageMetadata
	host.Events.AfterMessageDeleted.AddListener("vrf", func(m event.MessageMetadata) {
		events = append(events, m)
	})
	st, err := New(cfg, host)
	if err != nil {
		return
	}
	limit := maxkb * 1024
	names := vrfNames()
	for _, nm := range names {
		st.GetMessages(nm)
	}
	ref := &vrfLimRef{}
	issued := map[string]int{}
	var gone []vrfLimMsg // messages that left, in the order the reference removes them
	for step := 1; step <= k; step++ {
		sfx := string(rune('0' + step))
		op := 1 + vrf.Fork(vrf.Choose("op"+sfx, 3))
		box := names[vrf.Fork(vrf.Choose("box"+sfx, len(names)))]
		switch op {
		case 1: // deliver
			size := vrfSizes[vrf.Fork(vrf.Choose("size"+sfx, len(vrfSizes)))]
			id, aerr := st.AddMessage(&vrfIn{mailbox: box, subject: "s" + sfx, src: vrf.ZeroBytes(size)})
			vrf.Assert("add-noerr", aerr == nil)
			issued[box]++
			ref.all = append(ref.all, vrfLimMsg{box: box, id: id, size: size})
			if mcap > 0 {
				for len(ref.box(box)) > mcap {
					old := ref.box(box)[0]
					ref.drop(old.box, old.id)
					gone = append(gone, old)
					vrf.CoverIf("cap-eviction", true)
				}
			}
			if limit > 0 {
				for ref.total() > limit {
					old := ref.all[0]
					ref.drop(old.box, old.id)
					gone = append(gone, old)
					vrf.CoverIf("size-eviction", true)
				}
			}
		case 2: // remove the oldest live message of the mailbox (if any)
			l := ref.box(box)
			if len(l) > 0 {
				st.RemoveMessage(box, l[0].id)
				ref.drop(box, l[0].id)
				gone = append(gone, l[0])
			} else {
				st.RemoveMessage(box, "77")
			}
		case 3: // purge
			st.PurgeMessages(box)
			for _, m := range ref.box(box) {
				ref.drop(box, m.id)
				gone = append(gone, m)
			}
		}
		vrf.Quiesce()
		// one deleted event per departed message, none for anything else
		vrf.Assert("deleted-event-count", len(events) == len(gone))
		for _, g := range gone {
			n := 0
			for _, e := range events {
				if e.Mailbox == g.box && e.ID == g.id {
					n++
				}
			}
			vrf.Assert("exactly-one-deleted-event-per-departure", n == 1)
		}
		if step < k {
			vrf.Regroup(ref.shape(issued, names)*7 + len(gone)%7 + 1000*vrfInternals(st, names))
		}
	}
	// no Join here: the final states stay separate (their covers/assertions are grouped by label)
	vrf.Cover("history-done")
	vrf.CoverIf("something-left", len(gone) > 0)
}
