package mem

import (
	"github.com/inbucket/inbucket/v3/pkg/config"
	"github.com/inbucket/inbucket/v3/pkg/extension"
	"github.com/inbucket/inbucket/v3/pkg/storage"
	vrf "github.com/inbucket/inbucket/v3/pkg/zzvrf"
)

// reference model with limits: per-mailbox arrival lists plus the store-wide arrival order
type vrfLimMsg struct {
	box  string
	id   string
	size int
}

type vrfLimRef struct {
	all []vrfLimMsg // live messages, store-wide arrival order
}

func (r *vrfLimRef) box(name string) []vrfLimMsg {
	var out []vrfLimMsg
	for _, m := range r.all {
		if m.box == name {
			out = append(out, m)
		}
	}
	return out
}

func (r *vrfLimRef) total() int {
	t := 0
	for _, m := range r.all {
		t += m.size
	}
	return t
}

func (r *vrfLimRef) drop(box, id string) {
	var out []vrfLimMsg
	for _, m := range r.all {
		if m.box == box && m.id == id {
			continue
		}
		out = append(out, m)
	}
	r.all = out
}

// vrfInternals folds the store's eviction cursors into the grouping hash (only to keep paths with
// different internal cursors apart; no assertion looks at them).
func vrfInternals(st interface{}, names []string) int {
	s, ok := st.(*Store)
	if !ok {
		return 0
	}
	h := 0
	for _, nm := range names {
		if mb, ok := s.boxes[nm]; ok {
			h = h*31 + mb.first*7 + mb.last
		}
	}
	return h % 100003
}

func (r *vrfLimRef) shape(issued map[string]int, names []string) int {
	h := 3
	for _, nm := range names {
		h = h*131 + issued[nm] + 1
	}
	for _, m := range r.all {
		h = h*131 + int(m.id[0]-'0')*8 + len(m.box) + m.size
		h = h % 1000003
	}
	return h
}

var vrfSizes = []int{400, 700, 1100}

// VerifC08Limits: k symbolic operations (deliver with a size from the menu / remove / purge) on a
// memory store with a per-mailbox cap (capMode: 0 none, else the cap) and a store size limit of
// maxkb KiB (0: none). After every operation the store must list exactly what the reference model
// keeps: cap evicts the oldest of the mailbox, the size limit evicts oldest-first across the store
// until the total fits, and a new message that fits is retrievable at once.
func VerifC08Limits(k int, mcap int, maxkb int, pre int) {
	cfg := config.Storage{MailboxMsgCap: mcap}
	if maxkb > 0 {
		cfg.Params = map[string]string{"maxkb": string(rune('0' + maxkb))}
	}
	st, err := New(cfg, extension.NewHost())
	if err != nil {
		return
	}
	limit := maxkb * 1024
	names := vrfNames()
	for _, nm := range names {
		st.GetMessages(nm)
	}
	ref := &vrfLimRef{}
	issued := map[string]int{}
	enf := 0 // interactions with the size enforcer so far (keeps paths with different enforcer histories apart)
	// concrete prelude: `pre` small messages in the first mailbox (a mailbox that is already in use
	// when the symbolic operations start)
	for i := 0; i < pre; i++ {
		id, aerr := st.AddMessage(&vrfIn{mailbox: names[0], subject: "p", src: vrf.ZeroBytes(100)})
		vrf.Assert("add-noerr", aerr == nil)
		issued[names[0]]++
		ref.all = append(ref.all, vrfLimMsg{box: names[0], id: id, size: 100})
		if mcap > 0 {
			for len(ref.box(names[0])) > mcap {
				old := ref.box(names[0])[0]
				ref.drop(old.box, old.id)
			}
		}
	}
	for step := 1; step <= k; step++ {
		sfx := string(rune('0' + step))
		before := len(ref.all)
		op := 1 + vrf.Fork(vrf.Choose("op"+sfx, 3))
		box := names[vrf.Fork(vrf.Choose("box"+sfx, len(names)))]
		switch op {
		case 0, 1: // deliver
			size := vrfSizes[vrf.Fork(vrf.Choose("size"+sfx, len(vrfSizes)))]
			src := vrf.ZeroBytes(size)
			id, aerr := st.AddMessage(&vrfIn{mailbox: box, subject: "s" + sfx, src: src})
			vrf.Assert("add-noerr", aerr == nil)
			issued[box]++
			ref.all = append(ref.all, vrfLimMsg{box: box, id: id, size: size})
			if mcap > 0 {
				for len(ref.box(box)) > mcap {
					old := ref.box(box)[0]
					ref.drop(old.box, old.id)
					vrf.CoverIf("cap-eviction", true)
				}
			}
			if limit > 0 {
				for ref.total() > limit {
					old := ref.all[0]
					ref.drop(old.box, old.id)
					vrf.CoverIf("size-eviction", true)
				}
			}
			fits := limit == 0 || size <= limit
			got, gerr := st.GetMessage(box, id)
			if fits {
				vrf.Assert("fitting-message-retrievable", gerr == nil && got != nil)
			}
		case 2: // remove the oldest or the second-oldest live message of the mailbox (if any)
			l := ref.box(box)
			if len(l) > 0 {
				pick := vrf.Fork(vrf.Choose("pick"+sfx, 2))
				if pick >= len(l) {
					pick = len(l) - 1
				}
				vrf.Assert("remove-ok", st.RemoveMessage(box, l[pick].id) == nil)
				ref.drop(box, l[pick].id)
			}
		case 3: // purge
			vrf.Assert("purge-ok", st.PurgeMessages(box) == nil)
			for _, m := range ref.box(box) {
				ref.drop(box, m.id)
			}
		}
		// the store lists exactly the reference content, oldest first, and respects the limits
		total := 0
		for _, nm := range names {
			ms, lerr := st.GetMessages(nm)
			vrf.Assert("list-noerr", lerr == nil)
			want := ref.box(nm)
			if mcap > 0 {
				vrf.Assert("cap-respected", len(ms) <= mcap)
			}
			vrf.Assert("list-length", len(ms) == len(want))
			if len(ms) == len(want) {
				for i := range want {
					vrf.Assert("list-ids-oldest-first", ms[i].ID() == want[i].id)
					vrf.Assert("list-sizes", ms[i].Size() == int64(want[i].size))
				}
			}
			for _, m := range ms {
				total += int(m.Size())
			}
		}
		if limit > 0 {
			vrf.Assert("size-limit-respected", total <= limit)
		}
		enf += 1 + before // coarse: differs whenever the number of messages handled differs
		if step < k {
			vrf.Regroup((ref.shape(issued, names)*13+vrfInternals(st, names))*97 + enf%97)
		}
	}
	// no Join here: the final states stay separate (their covers/assertions are grouped by label)
	vrf.Cover("history-done")
	_ = storage.ErrNotExist
}
