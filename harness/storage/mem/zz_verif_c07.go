package mem

import (
	"io"
	"net/mail"
	"time"

	"github.com/inbucket/inbucket/v3/pkg/config"
	"github.com/inbucket/inbucket/v3/pkg/extension"
	"github.com/inbucket/inbucket/v3/pkg/storage"
	vrf "github.com/inbucket/inbucket/v3/pkg/zzvrf"
)

// ---- delivery input ----

type vrfIn struct {
	mailbox string
	subject string
	src     []byte
	date    time.Time
}

func (m *vrfIn) Mailbox() string                { return m.mailbox }
func (m *vrfIn) ID() string                     { return "ignored" }
func (m *vrfIn) From() *mail.Address            { return &mail.Address{Address: "from@x"} }
func (m *vrfIn) To() []*mail.Address            { return nil }
func (m *vrfIn) Date() time.Time                { return m.date }
func (m *vrfIn) Subject() string                { return m.subject }
func (m *vrfIn) Source() (io.ReadCloser, error) { return &vrf.ByteSource{Data: m.src}, nil }
func (m *vrfIn) Size() int64                    { return 777 } // must be ignored by the store
func (m *vrfIn) Seen() bool                     { return false }

// ---- reference model: mailbox name -> arrival-ordered list ----

type vrfRefMsg struct {
	id   string
	subj string
	size int
	b0   byte
	seen bool
}

type vrfRef struct {
	boxes  map[string][]vrfRefMsg
	issued map[string][]string // every id ever returned per mailbox
}

func vrfNames() []string { return []string{"alpha", "b@x.org"} }

func (r *vrfRef) find(box, id string) int {
	idx := -1
	l := r.boxes[box]
	if id == "latest" {
		return len(l) - 1
	}
	for i := range l {
		if l[i].id == id {
			idx = i
		}
	}
	return idx
}

// shape is a small hash of the live ids and the number of ids issued per mailbox.
func (r *vrfRef) shape(names []string) int {
	h := 7
	for _, nm := range names {
		h = h*131 + len(r.issued[nm]) + 1
		for _, m := range r.boxes[nm] {
			h = h*131 + int(m.id[0]-'0') + 11
		}
		h = h*131 + 5
	}
	return h % 1000003
}

func (r *vrfRef) shape2(names []string) int {
	return len(r.issued[names[1]])*100 + len(r.boxes[names[1]])
}

func vrfReadAll(rc io.ReadCloser) []byte {
	b, _ := io.ReadAll(rc)
	return b
}

// compare asserts that the store lists exactly the reference content of box, oldest first.
func (r *vrfRef) compare(st storage.Store, box string) {
	ms, err := st.GetMessages(box)
	vrf.Assert("list-noerr", err == nil)
	want := r.boxes[box]
	vrf.Assert("list-length", len(ms) == len(want))
	if len(ms) != len(want) {
		return
	}
	for i := range want {
		m := ms[i]
		vrf.Assert("list-id-order", m.ID() == want[i].id)
		vrf.Assert("list-mailbox", m.Mailbox() == box)
		vrf.Assert("list-subject", m.Subject() == want[i].subj)
		vrf.Assert("list-size", m.Size() == int64(want[i].size))
		vrf.Assert("list-seen", m.Seen() == want[i].seen)
	}
}

// VerifC07History runs k symbolic operations on a fresh memory store and compares every result
// with the reference model. capMode: 0 = no cap, 1 = symbolic cap in [1,2].
func VerifC07History(k int, capMode int) {
	mcap := 0
	if capMode != 0 {
		mcap = vrf.Fork(vrf.Int("cap", 1, 2))
	}
	st, err := New(config.Storage{MailboxMsgCap: mcap}, extension.NewHost())
	if err != nil {
		return
	}
	ref := &vrfRef{boxes: map[string][]vrfRefMsg{}, issued: map[string][]string{}}
	names := vrfNames()
	ids := []string{"1", "2", "3", "latest", "7", ""}
	for _, nm := range names {
		// touching a mailbox creates it (empty): the set of mailboxes is then the same on all paths
		st.GetMessages(nm)
	}
	for step := 1; step <= k; step++ {
		sfx := string(rune('0' + step))
		op := vrf.Fork(vrf.Choose("op"+sfx, 7))
		box := names[vrf.Fork(vrf.Choose("box"+sfx, len(names)))]
		switch op {
		case 0: // deliver
			b0 := vrf.Byte("byte" + sfx)
			n := 1 + vrf.Int("len"+sfx, 0, 2)
			src := make([]byte, n)
			src[0] = b0
			id, err := st.AddMessage(&vrfIn{mailbox: box, subject: "s" + sfx, src: src})
			vrf.Assert("add-noerr", err == nil)
			for _, old := range ref.issued[box] {
				vrf.Assert("id-never-reused", old != id)
			}
			ref.issued[box] = append(ref.issued[box], id)
			ref.boxes[box] = append(ref.boxes[box], vrfRefMsg{id: id, subj: "s" + sfx, size: n, b0: b0})
			if mcap > 0 {
				for len(ref.boxes[box]) > mcap {
					ref.boxes[box] = ref.boxes[box][1:]
				}
			}
			// the new message is retrievable at once, with its content
			got, gerr := st.GetMessage(box, id)
			vrf.Assert("added-retrievable", gerr == nil && got != nil)
			if gerr == nil && got != nil {
				rc, serr := got.Source()
				vrf.Assert("added-source-noerr", serr == nil)
				if serr == nil {
					data := vrfReadAll(rc)
					vrf.Assert("added-content-length", len(data) == n)
					if len(data) == n {
						vrf.Assert("added-content-byte", data[0] == b0)
					}
				}
			}
		case 1: // get
			id := ids[vrf.Fork(vrf.Choose("id"+sfx, len(ids)))]
			m, gerr := st.GetMessage(box, id)
			i := ref.find(box, id)
			if i >= 0 {
				vrf.CoverIf("get-existing", true)
				vrf.Assert("get-existing-ok", gerr == nil && m != nil)
				if gerr == nil && m != nil {
					w := ref.boxes[box][i]
					vrf.Assert("get-id", m.ID() == w.id)
					vrf.Assert("get-subject", m.Subject() == w.subj)
					vrf.Assert("get-size", m.Size() == int64(w.size))
					vrf.Assert("get-seen", m.Seen() == w.seen)
				}
			} else {
				vrf.CoverIf("get-missing", true)
				vrf.Assert("get-missing-is-notexist", gerr == storage.ErrNotExist)
			}
		case 2: // mark seen
			id := ids[vrf.Fork(vrf.Choose("sid"+sfx, 3))]
			serr := st.MarkSeen(box, id)
			i := ref.find(box, id)
			if i >= 0 {
				vrf.Assert("markseen-ok", serr == nil)
				ref.boxes[box][i].seen = true
			} else {
				vrf.Assert("markseen-missing-is-notexist", serr == storage.ErrNotExist)
			}
		case 3: // remove
			id := ids[vrf.Fork(vrf.Choose("rid"+sfx, 3))]
			rerr := st.RemoveMessage(box, id)
			i := ref.find(box, id)
			if i >= 0 {
				vrf.CoverIf("remove-existing", true)
				vrf.Assert("remove-ok", rerr == nil)
				l := ref.boxes[box]
				ref.boxes[box] = append(append([]vrfRefMsg(nil), l[:i]...), l[i+1:]...)
			} else {
				vrf.Assert("remove-missing-is-notexist", rerr == storage.ErrNotExist)
			}
		case 4: // purge
			vrf.Assert("purge-ok", st.PurgeMessages(box) == nil)
			ref.boxes[box] = nil
		case 5: // visit
			seen := map[string]int{}
			verr := st.VisitMailboxes(func(ms []storage.Message) bool {
				if len(ms) > 0 {
					seen[ms[0].Mailbox()]++
					want := ref.boxes[ms[0].Mailbox()]
					vrf.Assert("visit-length", len(ms) == len(want))
				}
				return true
			})
			vrf.Assert("visit-noerr", verr == nil)
			for _, nm := range names {
				if len(ref.boxes[nm]) > 0 {
					vrf.Assert("visit-each-nonempty-once", seen[nm] == 1)
				} else {
					vrf.Assert("visit-no-phantom", seen[nm] == 0)
				}
			}
		case 6: // list (done for both boxes below)
		}
		for _, nm := range names {
			ref.compare(st, nm)
		}
		// paths whose stores have the same shape (live ids and issued counts per mailbox) merge;
		// different shapes stay separate so that map contents remain concrete
		if step < k {
			vrf.Regroup(ref.shape(names)*4 + mcap + 64*vrfInternals(st, names))
		}
	}
	// no Join here: the final states stay separate (their covers/assertions are grouped by label)
	vrf.Cover("history-done")
}
