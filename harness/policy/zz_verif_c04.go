package policy

import (
	"github.com/inbucket/inbucket/v3/pkg/config"
	vrf "github.com/inbucket/inbucket/v3/pkg/zzvrf"
)

func vrfNaming(mode int) *Addressing {
	c := &config.Root{}
	switch mode {
	case 1:
		c.MailboxNaming = config.LocalNaming
	case 2:
		c.MailboxNaming = config.FullNaming
	case 3:
		c.MailboxNaming = config.DomainNaming
	}
	return &Addressing{Config: c}
}

// VerifC04FixedPoint: for every address NewRecipient accepts, the mailbox name is non-empty, is a
// fixed point of ExtractMailbox, and is what ExtractMailbox computes for the address itself.
func VerifC04FixedPoint(mode int, n int) {
	addr := vrf.StringN("addr", n)
	a := vrfNaming(mode)
	r, err := a.NewRecipient(addr)
	if err != nil {
		return
	}
	vrf.Cover("accepted")
	vrf.Assert("nonempty", r.Mailbox != "")
	m1, err1 := a.ExtractMailbox(addr)
	vrf.Assert("same-as-extract-noerr", err1 == nil)
	vrf.Assert("same-as-extract", m1 == r.Mailbox)
	m2, err2 := a.ExtractMailbox(r.Mailbox)
	vrf.Assert("fixedpoint-noerr", err2 == nil)
	vrf.Assert("fixedpoint-same", m2 == r.Mailbox)
}
