package policy

import (
	"strings"

	"github.com/inbucket/inbucket/v3/pkg/config"
	vrf "github.com/inbucket/inbucket/v3/pkg/zzvrf"
)

func vrfNaming(mode int) *Addressing {
	c := &config.Root{}
	switch mode {
	case 1:
		c.MailboxNaming = config.LocalNaming
	case 2:
		c.MailboxNaming = config.FullNaming
	case 3:
		c.MailboxNaming = config.DomainNaming
	}
	return &Addressing{Config: c}
}

// vrfBaseIssues classifies the parsed local part (before '+ext' stripping): emptyBase = the name
// left after removing '+ext' is empty; dotty = that name starts or ends with '.' or contains "..".
func vrfBaseIssues(local string) (emptyBase bool, dotty bool) {
	n := len(local)
	for i := 0; i < len(local); i++ {
		if local[i] == '+' {
			n = i
			break
		}
	}
	if n == 0 {
		return true, false
	}
	if local[0] == '.' {
		dotty = true
	}
	if local[n-1] == '.' {
		dotty = true
	}
	for i := 0; i+1 < n; i++ {
		if local[i] == '.' {
			if local[i+1] == '.' {
				dotty = true
			}
		}
	}
	return false, dotty
}

func vrfHasUpper(s string) bool {
	r := false
	for i := 0; i < len(s); i++ {
		if 'A' <= s[i] {
			if s[i] <= 'Z' {
				r = true
			}
		}
	}
	return r
}

// vrfKnownC04 declares the known findings that apply to the accepted recipient r (see
// /verif/known_findings.json). Each predicate names the failing input class narrowly.
func vrfKnownC04(mode int, r *Recipient) {
	emptyBase, dotty := vrfBaseIssues(r.LocalPart)
	if mode != 3 {
		vrf.Known("C04-empty-base", emptyBase)
		vrf.Known("C04-dot-name", dotty)
	}
}

// VerifC04FixedPoint: for every address NewRecipient accepts (what RCPT TO accepts after the
// handler's trimming), the mailbox name is non-empty, is what ExtractMailbox computes for the address
// (the call every read interface makes through MailboxForAddress), and is a fixed point.
func VerifC04FixedPoint(mode int, n int) {
	addr := vrf.StringN("addr", n)
	a := vrfNaming(mode)
	r, err := a.NewRecipient(addr)
	if err != nil {
		return
	}
	vrf.Cover("accepted")
	vrfKnownC04(mode, r)
	vrf.Assert("nonempty", r.Mailbox != "")
	m1, err1 := a.ExtractMailbox(addr)
	vrf.Assert("same-as-extract-noerr", err1 == nil)
	vrf.Assert("same-as-extract", m1 == r.Mailbox)
	m2, err2 := a.ExtractMailbox(r.Mailbox)
	vrf.Assert("fixedpoint-noerr", err2 == nil)
	vrf.Assert("fixedpoint-same", m2 == r.Mailbox)
}

// VerifC04Case: two addresses that differ only in letter case are accepted alike and name the same
// mailbox.
func VerifC04Case(mode int, n int) {
	a1 := vrf.StringN("a", n)
	a2 := vrf.StringN("b", n)
	for i := 0; i < n; i++ {
		vrf.Assume(vrfFold(a1[i]) == vrfFold(a2[i]))
	}
	ad := vrfNaming(mode)
	r1, err1 := ad.NewRecipient(a1)
	r2, err2 := ad.NewRecipient(a2)
	if err1 != nil {
		// IP-literal domains: "[IPv6:..." is accepted only with that exact tag spelling, a
		// documented syntax rule rather than a naming decision: acceptance may differ there.
		return
	}
	vrf.Cover("first-accepted")
	if err2 != nil {
		vrf.Assert("case-acceptance-agrees", false)
		return
	}
	vrf.Cover("both-accepted")
	vrf.Assert("case-same-mailbox", r1.Mailbox == r2.Mailbox)
}

func vrfFold(c byte) byte {
	if 'A' <= c {
		if c <= 'Z' {
			return c + 32
		}
	}
	return c
}

// VerifC04PlusExt: L@D and L+E@D (no '+' and no quoting characters in L) name the same mailbox.
func VerifC04PlusExt(mode int, nl int, ne int, nd int) {
	l := vrf.StringN("l", nl)
	e := vrf.StringN("e", ne)
	d := vrf.StringN("d", nd)
	for i := 0; i < nl; i++ {
		vrf.Assume(l[i] != '+')
		vrf.Assume(l[i] != '"')
		vrf.Assume(l[i] != '\\')
		vrf.Assume(l[i] != '@')
	}
	ad := vrfNaming(mode)
	r1, err1 := ad.NewRecipient(l + "@" + d)
	r2, err2 := ad.NewRecipient(l + "+" + e + "@" + d)
	if err1 != nil {
		return
	}
	if err2 != nil {
		return
	}
	vrf.Cover("both-accepted")
	vrf.Assert("plus-same-mailbox", r1.Mailbox == r2.Mailbox)
}

// VerifC04Rcpt: the RCPT handler's own trimming (strings.Trim(arg[3:], "<> ")) precedes
// NewRecipient; whatever it yields, an accepted recipient has the properties above. This instance
// starts from the raw RCPT argument.
func VerifC04Rcpt(mode int, n int) {
	arg := "TO:" + vrf.StringN("arg", n)
	addr := strings.Trim(arg[3:], "<> ")
	a := vrfNaming(mode)
	r, err := a.NewRecipient(addr)
	if err != nil {
		return
	}
	vrf.Cover("rcpt-accepted")
	vrfKnownC04(mode, r)
	vrf.Assert("rcpt-nonempty", r.Mailbox != "")
	m2, err2 := a.ExtractMailbox(r.Mailbox)
	vrf.Assert("rcpt-fixedpoint-noerr", err2 == nil)
	vrf.Assert("rcpt-fixedpoint-same", m2 == r.Mailbox)
}
