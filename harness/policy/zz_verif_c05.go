package policy

import (
	"os"
	"strings"

	"github.com/inbucket/inbucket/v3/pkg/config"
	vrf "github.com/inbucket/inbucket/v3/pkg/zzvrf"
)

// vrfLoadConfig runs the real config.Process over an environment holding the given lists (the
// lower-casing of the lists is part of what is checked). Natively the values go through real
// environment variables and the real envconfig parser.
func vrfLoadConfig(da, ds bool, accept, reject, store, discard, origin []string) *config.Root {
	if vrf.Symbolic() {
		vrf.EnvHavoc = func(spec interface{}) {
			c := spec.(*config.Root)
			c.MailboxNaming = config.LocalNaming
			c.SMTP.DefaultAccept = da
			c.SMTP.DefaultStore = ds
			c.SMTP.AcceptDomains = accept
			c.SMTP.RejectDomains = reject
			c.SMTP.StoreDomains = store
			c.SMTP.DiscardDomains = discard
			c.SMTP.RejectOriginDomains = origin
		}
	} else {
		os.Clearenv()
		b := func(v bool) string {
			if v {
				return "true"
			}
			return "false"
		}
		os.Setenv("INBUCKET_SMTP_DEFAULTACCEPT", b(da))
		os.Setenv("INBUCKET_SMTP_DEFAULTSTORE", b(ds))
		os.Setenv("INBUCKET_SMTP_ACCEPTDOMAINS", strings.Join(accept, ","))
		os.Setenv("INBUCKET_SMTP_REJECTDOMAINS", strings.Join(reject, ","))
		os.Setenv("INBUCKET_SMTP_STOREDOMAINS", strings.Join(store, ","))
		os.Setenv("INBUCKET_SMTP_DISCARDDOMAINS", strings.Join(discard, ","))
		os.Setenv("INBUCKET_SMTP_REJECTORIGINDOMAINS", strings.Join(origin, ","))
	}
	c, err := config.Process()
	if err != nil {
		panic(err)
	}
	return c
}

// vrfListEntry is a symbolic list entry without ',' (the environment list separator) and NUL.
func vrfListEntry(name string, n int) string {
	s := vrf.StringN(name, n)
	for i := 0; i < n; i++ {
		vrf.Assume(s[i] != ',')
		vrf.Assume(s[i] != 0)
		vrf.Assume(s[i] < 0x80)
	}
	return s
}

func vrfEqFold(a, b string) bool {
	if len(a) != len(b) {
		return false
	}
	eq := true
	for i := 0; i < len(a); i++ {
		if vrfFold(a[i]) != vrfFold(b[i]) {
			eq = false
		}
	}
	return eq
}

func vrfInFold(list []string, d string) bool {
	in := false
	for _, e := range list {
		if vrfEqFold(e, d) {
			in = true
		}
	}
	return in
}

// VerifC05Decide: accept and store decisions equal the documented rule, case-insensitively, for
// lists loaded through config.Process. Lists hold k entries each (k in {0,1,2}) of ne bytes.
func VerifC05Decide(k int, ne int, nd int) {
	da := vrf.Bool("defaultAccept")
	ds := vrf.Bool("defaultStore")
	var accept, reject, store, discard []string
	for i := 0; i < k; i++ {
		accept = append(accept, vrfListEntry("accept"+string(rune('0'+i)), ne))
		reject = append(reject, vrfListEntry("reject"+string(rune('0'+i)), ne))
		store = append(store, vrfListEntry("store"+string(rune('0'+i)), ne))
		discard = append(discard, vrfListEntry("discard"+string(rune('0'+i)), ne))
	}
	// reference copies taken before Process lower-cases the slices in place
	acc0 := append([]string(nil), accept...)
	rej0 := append([]string(nil), reject...)
	sto0 := append([]string(nil), store...)
	dis0 := append([]string(nil), discard...)
	c := vrfLoadConfig(da, ds, accept, reject, store, discard, nil)
	a := &Addressing{Config: c}
	dom := vrf.StringN("domain", nd)
	vrf.Assume(ValidateDomainPart(dom))
	vrf.Cover("valid-domain")

	wantAccept := false
	if da {
		wantAccept = !vrfInFold(rej0, dom)
	} else {
		wantAccept = vrfInFold(acc0, dom)
	}
	vrf.Assert("accept-rule", a.ShouldAcceptDomain(dom) == wantAccept)
	wantStore := false
	if ds {
		wantStore = !vrfInFold(dis0, dom)
	} else {
		wantStore = vrfInFold(sto0, dom)
	}
	vrf.Assert("store-rule", a.ShouldStoreDomain(dom) == wantStore)
	if k > 0 {
		vrf.CoverIf("reject-list-hit", da && !wantAccept)
		vrf.CoverIf("store-list-hit", !ds && wantStore)
	}
	// the Recipient methods decide on the domain of the address
	r := &Recipient{addrPolicy: a, Domain: dom}
	vrf.Assert("recipient-accept", r.ShouldAccept() == wantAccept)
	vrf.Assert("recipient-store", r.ShouldStore() == wantStore)
}

// vrfRefMatch is the reference wildcard matcher: m[i][j] = p[i:] matches s[j:], filled backwards.
func vrfRefMatch(p, s string) bool {
	np, ns := len(p), len(s)
	m := make([][]bool, np+1)
	for i := range m {
		m[i] = make([]bool, ns+1)
	}
	m[np][ns] = true
	for i := np - 1; i >= 0; i-- {
		for j := ns; j >= 0; j-- {
			v := false
			if p[i] == '*' {
				if m[i+1][j] {
					v = true
				}
				if j < ns {
					if m[i][j+1] {
						v = true
					}
				}
			} else if j < ns {
				if p[i] == '?' {
					v = m[i+1][j+1]
				} else if p[i] == s[j] {
					v = m[i+1][j+1]
				}
			}
			m[i][j] = v
		}
	}
	return m[0][0]
}

// VerifC05Origin: a sender domain is refused exactly when it matches a reject-origin pattern
// (wildcards * and ?), ignoring letter case in address and configuration.
func VerifC05Origin(k int, np int, nd int) {
	var pats []string
	for i := 0; i < k; i++ {
		pats = append(pats, vrfListEntry("pat"+string(rune('0'+i)), np))
	}
	pats0 := append([]string(nil), pats...)
	c := vrfLoadConfig(true, true, nil, nil, nil, nil, pats)
	a := &Addressing{Config: c}
	dom := vrf.StringN("domain", nd)
	vrf.Assume(ValidateDomainPart(dom))
	vrf.Cover("valid-domain")
	lower := make([]byte, nd)
	for i := 0; i < nd; i++ {
		lower[i] = vrfFold(dom[i])
	}
	refused := false
	for _, p := range pats0 {
		lp := make([]byte, len(p))
		for i := 0; i < len(p); i++ {
			lp[i] = vrfFold(p[i])
		}
		if vrfRefMatch(string(lp), string(lower)) {
			refused = true
		}
	}
	vrf.Assert("origin-rule", a.ShouldAcceptOriginDomain(dom) == !refused)
	o := &Origin{addrPolicy: a, Domain: dom}
	vrf.Assert("origin-method", o.ShouldAccept() == !refused)
	if k > 0 {
		vrf.CoverIf("refused", refused)
		vrf.CoverIf("accepted", !refused)
	}
}
