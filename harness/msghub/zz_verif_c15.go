package msghub

import (
	"time"

	"github.com/inbucket/inbucket/v3/pkg/extension"
	"github.com/inbucket/inbucket/v3/pkg/extension/event"
	vrf "github.com/inbucket/inbucket/v3/pkg/zzvrf"
)

type vrfSlowListener struct {
	got   []string
	first bool
}

func (l *vrfSlowListener) Receive(m event.MessageMetadata) error {
	if !l.first {
		l.first = true
		// the monitor is slow on its first event: the hub goroutine is held here
		vrf.Gate("slow")
	}
	l.got = append(l.got, m.ID)
	return nil
}

func (l *vrfSlowListener) Delete(mailbox string, id string) error {
	l.got = append(l.got, "-"+id)
	return nil
}

func vrfID(i int) string {
	return string([]byte{byte('0' + i/100), byte('0' + (i/10)%10), byte('0' + i%10)})
}

// VerifC15Burst: a burst of n events is dispatched while the hub goroutine is held inside a slow
// monitor (symbolic gate), so that the hub's 100-slot operation queue fills up and the dispatcher
// has to wait. Nothing may be dropped: once the monitor resumes it receives every event of the
// burst exactly once, in dispatch order, and a monitor attached afterwards receives the retained
// history (the last `hlen` of them).
func VerifC15Burst(n int, hlen int) {
	vrf.ResetGates()
	hub := New(hlen, extension.NewHost())
	ctx := vrf.NewCancelCtx()
	go hub.Start(ctx)
	l := &vrfSlowListener{}
	hub.AddListener(l)
	hub.Dispatch(event.MessageMetadata{Mailbox: "a", ID: vrfID(0)})
	vrf.Quiesce() // the hub is now inside Receive (held if gate_slow)
	done := make(chan bool, 1)
	go func() {
		for i := 1; i <= n; i++ {
			hub.Dispatch(event.MessageMetadata{Mailbox: "a", ID: vrfID(i)})
		}
		done <- true
	}()
	vrf.Quiesce()
	vrf.Open("slow")
	select {
	case <-done:
	case <-time.After(3 * time.Second):
		vrf.Assert("burst-dispatch-returns", false)
		return
	}
	hub.Sync()
	vrf.Assert("burst-every-event-received", len(l.got) == n+1)
	inOrder := len(l.got) == n+1
	if inOrder {
		for i := 0; i <= n; i++ {
			if l.got[i] != vrfID(i) {
				inOrder = false
			}
		}
	}
	vrf.Assert("burst-in-dispatch-order", inOrder)
	// a late monitor gets the retained history
	l2 := &vrfSlowListener{first: true}
	hub.AddListener(l2)
	hub.Sync()
	want := hlen
	if n+1 < want {
		want = n + 1
	}
	vrf.Assert("burst-history-replayed", len(l2.got) == want)
	if len(l2.got) == want {
		for i := 0; i < want; i++ {
			vrf.Assert("burst-history-is-the-latest", l2.got[i] == vrfID(n+1-want+i))
		}
	}
	ctx.Cancel()
	vrf.Cover("burst-done")
	vrf.CoverIf("burst-with-slow-monitor", vrf.Bool("gate_slow"))
}
