package msghub

// VrfListenerCount reports how many listeners the hub currently holds (harness observation of
// "a disconnected listener is dropped"). It must be called while the hub goroutine is idle.
func VrfListenerCount(h *Hub) int { return len(h.listeners) }

// VrfQueued reports how many operations are waiting in the hub's queue.
func VrfQueued(h *Hub) int { return len(h.opChan) }
