package msghub

import (
	"github.com/inbucket/inbucket/v3/pkg/extension"
	"github.com/inbucket/inbucket/v3/pkg/extension/event"
	vrf "github.com/inbucket/inbucket/v3/pkg/zzvrf"
)

// VerifC19Hub: the hub stops when its context is cancelled; the stores keep emitting stored/deleted
// events while the remaining sessions drain, and those late events must neither crash the process
// (they run on bare goroutines of the async broker) nor block forever within the bound.
func VerifC19Hub(late int) {
	host := extension.NewHost()
	hub := New(2, host)
	ctx := vrf.NewCancelCtx()
	returned := false
	go func() {
		hub.Start(ctx)
		returned = true
	}()
	vrf.Quiesce()
	ctx.Cancel()
	vrf.Quiesce()
	vrf.Assert("start-returns-after-cancel", returned)
	for i := 0; i < late; i++ {
		m := event.MessageMetadata{Mailbox: "a", ID: string(rune('1' + i))}
		host.Events.AfterMessageStored.Emit(&m)
		host.Events.AfterMessageDeleted.Emit(&m)
	}
	vrf.Quiesce()
	vrf.Cover("late-events-emitted")
}
