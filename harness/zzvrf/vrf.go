// Package zzvrf is the harness support API. Under the symbolic engine (gosmt) every function of
// this file is intercepted: inputs become SMT variables, Assume strengthens the path guard,
// Assert/Cover become solver queries. Compiled natively (replay) the same functions read their
// values by name from the JSON assignment file named by $VRF_ASSIGN and Assert records failures.
package zzvrf

import (
	"reflect"
	"encoding/json"
	"fmt"
	"os"
	"runtime"
	"sync"
	"time"
)

var (
	once    sync.Once
	assign  map[string]interface{}
	mu      sync.Mutex
	failed  []string
	covered []string
)

// AssumeViolated is the panic value used when a replayed assignment violates an Assume.
type AssumeViolated struct{}

func load() {
	once.Do(func() {
		assign = map[string]interface{}{}
		p := os.Getenv("VRF_ASSIGN")
		if p == "" {
			return
		}
		data, err := os.ReadFile(p)
		if err != nil {
			panic(err)
		}
		if err := json.Unmarshal(data, &assign); err != nil {
			panic(err)
		}
	})
}

// SetAssignment installs an assignment directly (used by native drivers).
func SetAssignment(m map[string]interface{}) {
	load()
	mu.Lock()
	assign = m
	failed = nil
	covered = nil
	mu.Unlock()
}

func num(name string) (float64, bool) {
	load()
	v, ok := assign[name]
	if !ok {
		return 0, false
	}
	switch c := v.(type) {
	case float64:
		return c, true
	case int:
		return float64(c), true
	case int64:
		return float64(c), true
	case bool:
		if c {
			return 1, true
		}
		return 0, true
	}
	return 0, false
}

// Bool is a symbolic boolean.
func Bool(name string) bool {
	load()
	if b, ok := assign[name].(bool); ok {
		return b
	}
	f, _ := num(name)
	return f != 0
}

// Int is a symbolic integer in [lo, hi].
func Int(name string, lo, hi int) int {
	f, ok := num(name)
	if !ok {
		return lo
	}
	return int(f)
}

// Int64 is an unconstrained symbolic 64-bit integer.
func Int64(name string) int64 {
	load()
	switch c := assign[name].(type) {
	case float64:
		return int64(c)
	case int64:
		return c
	case string:
		var v int64
		fmt.Sscanf(c, "%d", &v)
		return v
	}
	return 0
}

// Byte is a symbolic byte.
func Byte(name string) byte {
	f, _ := num(name)
	return byte(int(f))
}

// Choose is a symbolic selector in [0, n).
func Choose(name string, n int) int { return Int(name, 0, n-1) }

func bytesOf(name string) []byte {
	load()
	switch c := assign[name].(type) {
	case []interface{}:
		out := make([]byte, len(c))
		for i, e := range c {
			if f, ok := e.(float64); ok {
				out[i] = byte(int(f))
			}
		}
		return out
	case []int:
		out := make([]byte, len(c))
		for i, e := range c {
			out[i] = byte(e)
		}
		return out
	case string:
		return []byte(c)
	}
	return nil
}

// String is a symbolic string of at most maxLen bytes (every byte value).
func String(name string, maxLen int) string { return string(bytesOf(name)) }

// StringN is a symbolic string of exactly n bytes.
func StringN(name string, n int) string {
	b := bytesOf(name)
	for len(b) < n {
		b = append(b, 0)
	}
	return string(b[:n])
}

// Bytes is a symbolic byte slice of at most maxLen bytes.
func Bytes(name string, maxLen int) []byte { return bytesOf(name) }

// LenOnly is a byte slice of arbitrary length whose content is never inspected.
func LenOnly(name string) []byte {
	f, _ := num(name)
	n := int(f)
	b := make([]byte, n)
	for i := range b {
		b[i] = 'a'
	}
	if n > 0 {
		b[n-1] = '\n'
	}
	return b
}

// Assume restricts the explored inputs from this point on.
func Assume(cond bool) {
	if !cond {
		panic(AssumeViolated{})
	}
}

// Assert states the property.
func Assert(label string, cond bool) {
	if !cond {
		mu.Lock()
		failed = append(failed, label)
		mu.Unlock()
		fmt.Printf("VRF-ASSERT-FAIL %s\n", label)
	}
}

// Cover is a reachability witness: it must be satisfiable.
func Cover(label string) {
	mu.Lock()
	covered = append(covered, label)
	mu.Unlock()
}

// CoverIf is a conditional reachability witness.
func CoverIf(label string, cond bool) {
	if cond {
		Cover(label)
	}
}

// Known attributes assertion failures on the current path, when cond holds, to the known finding id.
func Known(id string, cond bool) {}

// Unreachable asserts the current point is never reached.
func Unreachable(label string) { Assert("unreachable: "+label, false) }

// Symbolic reports whether the code runs under the symbolic engine.
func Symbolic() bool { return false }

// PeekBool reads a bool field (possibly unexported, possibly promoted from an embedded struct) of
// the struct p points to - the state real code left in an object of a package that offers no
// accessor for it. Under the engine the field is loaded from the object.
func PeekBool(p interface{}, field string) bool {
	return reflect.ValueOf(p).Elem().FieldByName(field).Bool()
}

// Failed returns the labels of the assertions that failed natively.
func Failed() []string {
	mu.Lock()
	defer mu.Unlock()
	return append([]string(nil), failed...)
}

// Covered returns the cover labels reached natively.
func Covered() []string {
	mu.Lock()
	defer mu.Unlock()
	return append([]string(nil), covered...)
}

// Fork case-splits the symbolic engine on the (small-range) value v: each value is explored as
// its own path until the matching Join. Natively it returns v.
func Fork(v int) int { return v }

// Join ends every case split in force (paths at the same point merge again).
func Join() {}

// Digits is a symbolic string of exactly n decimal digits.
func Digits(name string, n int) string { return StringN(name, n) }

// SymbolicClock makes time.Now return fresh, non-decreasing symbolic instants under the engine
// (natively the real clock is used).
func SymbolicClock() {}

// Regroup ends the case splits in force and starts a new one on v in one step: afterwards exactly
// the paths with equal v merge.
func Regroup(v int) int { return v }

// Quiesce waits until the goroutines started so far have finished or blocked (natively: a short
// sleep, the started goroutines are trivial event listeners).
func Quiesce() { time.Sleep(30 * time.Millisecond) }

// Preemptions lets the engine's scheduler insert up to n pre-emptions before unbuffered channel
// sends and mutex acquisitions (natively: no effect, the Go scheduler decides).
func Preemptions(n int) {}

// PreemptPoint is a point where the engine's scheduler may switch to another runnable goroutine at
// the cost of one unit of the pre-emption budget (natively: a Gosched).
func PreemptPoint() { runtime.Gosched() }

// Yield is a voluntary scheduling point.
func Yield() { runtime.Gosched() }

// ZeroBytes returns n zero bytes; under the engine the content is never materialised (only the
// length exists), so it must not be inspected.
func ZeroBytes(n int) []byte { return make([]byte, n) }
