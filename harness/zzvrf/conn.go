package zzvrf

import (
	"bufio"
	"bytes"
	"errors"
	"fmt"
	"io"
	"net"
	"net/textproto"
	"strings"
	"sync"
	"time"
)

// Step is one unit of scripted client input.
type Step struct {
	Kind int    // StepLine, StepBody, StepEOF, StepErr
	Text string // StepLine: the command line without CRLF
	Body []byte // StepBody: the message data in decoded form (what ReadDotBytes returns)
	Cut  bool   // the connection is cut right after these bytes (before the line/body terminator)
}

// Step kinds.
const (
	StepLine = iota
	StepBody
	StepEOF
	StepErr
)

// ScriptConn is an in-memory net.Conn whose input is produced on demand by the harness callback
// Next (called each time the server reads the next line / data block) and whose output is kept as
// reply lines. Natively it feeds the real bufio/textproto readers (one script step per Read call);
// under the symbolic engine the textproto/bufio entry points are redirected to the Model*
// functions below, which consume the same steps.
type ScriptConn struct {
	Next    func() Step
	Replies []string // reply lines written since the harness last cleared them
	// FailWritesFrom: the n-th reply line (0-based, counted over the session) and all later ones
	// fail with a network error; negative = never.
	FailWritesFrom int
	NWrites        int
	Closed         bool

	// OnRemoteAddr, when set, runs inside RemoteAddr() — the first thing a session does with its
	// connection, before any bookkeeping (a place for a Gate).
	OnRemoteAddr func()

	pending []byte
	eofNext bool
	out     []byte
}

// NewScriptConn creates a connection whose writes never fail.
func NewScriptConn() *ScriptConn { return &ScriptConn{FailWritesFrom: -1} }

type scriptAddr struct{}

func (scriptAddr) Network() string { return "tcp" }
func (scriptAddr) String() string  { return "10.9.8.7:2525" }

type scriptNetErr struct{ timeout bool }

func (e *scriptNetErr) Error() string   { return "scripted network error" }
func (e *scriptNetErr) Timeout() bool   { return e.timeout }
func (e *scriptNetErr) Temporary() bool { return false }

// ErrScriptWrite is returned by failing writes.
var ErrScriptWrite = errors.New("scripted write failure")

// DotEncode renders a decoded body in SMTP DATA wire form (without the final ".CRLF").
func DotEncode(body []byte) []byte {
	var out []byte
	start := true
	for _, b := range body {
		if start && b == '.' {
			out = append(out, '.')
		}
		start = false
		if b == '\n' {
			out = append(out, '\r', '\n')
			start = true
		} else {
			out = append(out, b)
		}
	}
	return out
}

func (c *ScriptConn) Read(p []byte) (int, error) {
	if len(c.pending) == 0 {
		if c.eofNext {
			return 0, io.EOF
		}
		st := c.Next()
		switch st.Kind {
		case StepLine:
			c.pending = []byte(st.Text)
			if st.Cut {
				c.eofNext = true
			} else {
				c.pending = append(c.pending, '\r', '\n')
			}
		case StepBody:
			c.pending = DotEncode(st.Body)
			if st.Cut {
				c.eofNext = true
			} else {
				c.pending = append(c.pending, '.', '\r', '\n')
			}
		case StepEOF:
			c.eofNext = true
			return 0, io.EOF
		default:
			c.eofNext = true
			return 0, &scriptNetErr{timeout: st.Cut}
		}
		if len(c.pending) == 0 {
			return 0, io.EOF
		}
	}
	n := copy(p, c.pending)
	c.pending = c.pending[n:]
	return n, nil
}

func (c *ScriptConn) Write(p []byte) (int, error) {
	c.out = append(c.out, p...)
	for {
		i := strings.Index(string(c.out), "\r\n")
		if i < 0 {
			break
		}
		line := string(c.out[:i])
		c.out = c.out[i+2:]
		if c.FailWritesFrom >= 0 && c.NWrites >= c.FailWritesFrom {
			c.NWrites++
			return 0, ErrScriptWrite
		}
		c.NWrites++
		c.Replies = append(c.Replies, line)
	}
	return len(p), nil
}

func (c *ScriptConn) Close() error        { c.Closed = true; return nil }
func (c *ScriptConn) LocalAddr() net.Addr { return scriptAddr{} }
func (c *ScriptConn) RemoteAddr() net.Addr {
	if c.OnRemoteAddr != nil {
		f := c.OnRemoteAddr
		c.OnRemoteAddr = nil
		f()
	}
	return scriptAddr{}
}
func (c *ScriptConn) SetDeadline(t time.Time) error      { return nil }
func (c *ScriptConn) SetReadDeadline(t time.Time) error  { return nil }
func (c *ScriptConn) SetWriteDeadline(t time.Time) error { return nil }

// ---- models (engine only) ----

var connOfReader = map[*textproto.Reader]*ScriptConn{}
var connOfWriter = map[*textproto.Writer]*ScriptConn{}

// ModelTextprotoNewConn models net/textproto.NewConn.
func ModelTextprotoNewConn(conn io.ReadWriteCloser) *textproto.Conn {
	tc := &textproto.Conn{}
	sc := conn.(*ScriptConn)
	connOfReader[&tc.Reader] = sc
	connOfWriter[&tc.Writer] = sc
	// the exported bufio.Reader under the textproto reader (code that reads lines through it
	// directly gets the bufio model below)
	br := &bufio.Reader{}
	connOfBufio[br] = sc
	tc.Reader.R = br
	return tc
}

// pendingLine holds the rest of a scripted line that bufio.Reader.ReadLine returned only a prefix of.
var pendingLine = map[*ScriptConn]string{}

// ModelBufioReadLine models (*bufio.Reader).ReadLine over a scripted connection: at most 4096
// bytes (the default buffer) per call, isPrefix set while the line continues; a line cut by a
// disconnect is returned without error, the next call reports io.EOF.
func ModelBufioReadLine(r *bufio.Reader) ([]byte, bool, error) {
	c := connOfBufio[r]
	if c == nil {
		Unreachable("bufio.Reader that does not wrap a scripted connection")
		return nil, false, io.EOF
	}
	if rest := pendingLine[c]; rest != "" {
		if len(rest) > 4096 {
			pendingLine[c] = rest[4096:]
			return []byte(rest[:4096]), true, nil
		}
		pendingLine[c] = ""
		return []byte(rest), false, nil
	}
	if c.eofNext {
		return nil, false, io.EOF
	}
	st := c.Next()
	switch st.Kind {
	case StepLine:
		if st.Cut {
			c.eofNext = true
			if len(st.Text) == 0 {
				return nil, false, io.EOF
			}
		}
		if len(st.Text) > 4096 {
			pendingLine[c] = st.Text[4096:]
			return []byte(st.Text[:4096]), true, nil
		}
		return []byte(st.Text), false, nil
	case StepEOF:
		c.eofNext = true
		return nil, false, io.EOF
	}
	c.eofNext = true
	return nil, false, &scriptNetErr{timeout: st.Cut}
}

// ModelTextprotoReadLine models (*textproto.Reader).ReadLine: the next scripted line; a line cut
// by a disconnect is returned as it stands (bufio's behaviour) and the next read sees EOF.
func ModelTextprotoReadLine(r *textproto.Reader) (string, error) {
	c := connOfReader[r]
	if c.eofNext {
		return "", io.EOF
	}
	st := c.Next()
	switch st.Kind {
	case StepLine:
		if st.Cut {
			c.eofNext = true
			if len(st.Text) == 0 {
				return "", io.EOF
			}
		}
		return st.Text, nil
	case StepBody:
		// a body where a line was expected: the harness is out of step with the server
		Unreachable("script: body offered while the server reads a command line")
		return "", io.EOF
	case StepEOF:
		c.eofNext = true
		return "", io.EOF
	}
	c.eofNext = true
	return "", &scriptNetErr{timeout: st.Cut}
}

// ModelTextprotoReadDotBytes models (*textproto.Reader).ReadDotBytes.
func ModelTextprotoReadDotBytes(r *textproto.Reader) ([]byte, error) {
	c := connOfReader[r]
	if c.eofNext {
		return nil, io.ErrUnexpectedEOF
	}
	st := c.Next()
	switch st.Kind {
	case StepBody:
		if st.Cut {
			c.eofNext = true
			return nil, io.ErrUnexpectedEOF
		}
		return st.Body, nil
	case StepEOF:
		c.eofNext = true
		return nil, io.ErrUnexpectedEOF
	case StepLine:
		Unreachable("script: command line offered while the server reads message data")
		return nil, io.ErrUnexpectedEOF
	}
	c.eofNext = true
	return nil, &scriptNetErr{timeout: st.Cut}
}

// ModelTextprotoDotReader models (*textproto.Reader).DotReader: a reader over the (un-stuffed)
// message data the client sends next. A data block cut by a disconnect is outside this model.
func ModelTextprotoDotReader(r *textproto.Reader) io.Reader {
	data, err := ModelTextprotoReadDotBytes(r)
	if err != nil {
		Unreachable("DotReader over a message data block that ends in an error")
	}
	return &ByteSource{Data: data}
}

// ModelTextprotoPrintfLine models (*textproto.Writer).PrintfLine.
func ModelTextprotoPrintfLine(w *textproto.Writer, format string, args ...interface{}) error {
	c := connOfWriter[w]
	if c.FailWritesFrom >= 0 && c.NWrites >= c.FailWritesFrom {
		c.NWrites++
		return ErrScriptWrite
	}
	c.NWrites++
	c.Replies = append(c.Replies, fmt.Sprintf(format, args...))
	return nil
}

// ---- bufio.Reader / fmt.Fprint over a ScriptConn (POP3 uses these instead of textproto) ----

var connOfBufio = map[*bufio.Reader]*ScriptConn{}

// ModelBufioNewReader models bufio.NewReader.
func ModelBufioNewReader(rd io.Reader) *bufio.Reader {
	r := &bufio.Reader{}
	if c, ok := rd.(*ScriptConn); ok {
		connOfBufio[r] = c
	} else if rd != nil {
		vfsBufReaders[r] = rd
	}
	return r
}

// ModelBufioReset models (*bufio.Reader).Reset.
func ModelBufioReset(r *bufio.Reader, rd io.Reader) {
	if c, ok := rd.(*ScriptConn); ok {
		connOfBufio[r] = c
		return
	}
	vfsBufReaders[r] = rd
}

// ModelBufioReadString models (*bufio.Reader).ReadString('\n') over a scripted connection: a
// complete line is returned with its CRLF; a line cut by a disconnect comes back with io.EOF.
func ModelBufioReadString(r *bufio.Reader, delim byte) (string, error) {
	c := connOfBufio[r]
	if c == nil {
		Unreachable("bufio.Reader that does not wrap a scripted connection")
		return "", io.EOF
	}
	if c.eofNext {
		return "", io.EOF
	}
	st := c.Next()
	switch st.Kind {
	case StepLine:
		if st.Cut {
			c.eofNext = true
			return st.Text, io.EOF
		}
		return st.Text + "\r\n", nil
	case StepEOF:
		c.eofNext = true
		return "", io.EOF
	}
	c.eofNext = true
	return "", &scriptNetErr{timeout: st.Cut}
}

// ModelFprint models fmt.Fprint: on a scripted connection one call writes one CRLF-terminated line.
func ModelFprint(w io.Writer, a ...interface{}) (int, error) {
	s := fmt.Sprint(a...)
	if c, ok := w.(*ScriptConn); ok {
		if c.FailWritesFrom >= 0 && c.NWrites >= c.FailWritesFrom {
			c.NWrites++
			return 0, ErrScriptWrite
		}
		c.NWrites++
		n := len(s)
		if n >= 2 {
			c.Replies = append(c.Replies, s[:n-2])
		} else {
			c.Replies = append(c.Replies, s)
		}
		return n, nil
	}
	return w.Write([]byte(s))
}

// ByteSource is an io.ReadCloser over a byte slice whose content the models can see.
type ByteSource struct {
	Data   []byte
	pos    int
	Closed bool
}

func (b *ByteSource) Read(p []byte) (int, error) {
	if b.pos >= len(b.Data) {
		return 0, io.EOF
	}
	n := copy(p, b.Data[b.pos:])
	b.pos += n
	return n, nil
}

// Close implements io.Closer.
func (b *ByteSource) Close() error { b.Closed = true; return nil }

// ---- bufio.Scanner (ScanLines) over a ByteSource ----

type scanState struct {
	data []byte
	pos  int
	cur  string
	done bool
	max  int // maximum token size (bufio.MaxScanTokenSize unless Buffer was called)
	err  error
}

var scanOf = map[*bufio.Scanner]*scanState{}

// ModelBufioNewScanner models bufio.NewScanner for readers whose bytes are visible (ByteSource).
func ModelBufioNewScanner(r io.Reader) *bufio.Scanner {
	sc := &bufio.Scanner{}
	st := &scanState{max: bufio.MaxScanTokenSize}
	if bs, ok := r.(*ByteSource); ok {
		st.data = bs.Data[bs.pos:]
		bs.pos = len(bs.Data)
	} else {
		Unreachable("bufio.Scanner over a reader the model cannot see")
	}
	scanOf[sc] = st
	return sc
}

// ModelScannerScan models Scan with the default ScanLines split function: lines end in '\n', one
// trailing '\r' is dropped, a final unterminated line is returned, an empty rest ends the scan.
func ModelScannerScan(sc *bufio.Scanner) bool {
	st := scanOf[sc]
	if st.done {
		return false
	}
	n := len(st.data)
	if st.pos >= n {
		st.done = true
		return false
	}
	end := st.pos
	if n > 4096 {
		// very long data (the long-line harness): one search instead of a byte loop
		end = n
		if i := bytes.IndexByte(st.data[st.pos:], '\n'); i >= 0 {
			end = st.pos + i
		}
	} else {
		for end < n {
			if st.data[end] == '\n' {
				break
			}
			end++
		}
	}
	// a line that does not fit the buffer (no newline within max bytes) ends the scan with
	// ErrTooLong, as in the real Scanner
	if end-st.pos >= st.max {
		st.done = true
		st.err = bufio.ErrTooLong
		return false
	}
	// dropCR applies to terminated lines and to the final unterminated one alike
	stop := end
	if stop > st.pos {
		if st.data[stop-1] == '\r' {
			stop--
		}
	}
	st.cur = string(st.data[st.pos:stop])
	if end < n {
		st.pos = end + 1
	} else {
		st.pos = n
	}
	return true
}

// ModelScannerText models Text.
func ModelScannerText(sc *bufio.Scanner) string { return scanOf[sc].cur }

// ModelScannerErr models Err.
func ModelScannerErr(sc *bufio.Scanner) error { return scanOf[sc].err }

// ModelScannerBuffer models Buffer: only the maximum token size matters to the model.
func ModelScannerBuffer(sc *bufio.Scanner, buf []byte, max int) { scanOf[sc].max = max }

// ---- gates: harness-placed schedule choices ----
// Gate(name) is a point where the calling goroutine may be held back (symbolic boolean input
// "gate_<name>") until another goroutine calls Open(name). The same code runs natively with real
// goroutines, so a schedule found by the engine is replayed by the assignment of the gate inputs.

var gateMu sync.Mutex
var gateCh = map[string]chan struct{}{}
var gateOpen = map[string]bool{}

func gateOf(name string) chan struct{} {
	gateMu.Lock()
	defer gateMu.Unlock()
	c, ok := gateCh[name]
	if !ok {
		c = make(chan struct{})
		gateCh[name] = c
	}
	return c
}

// Gate holds the caller until Open(name) if the input gate_<name> is true.
func Gate(name string) {
	if Bool("gate_" + name) {
		<-gateOf(name)
	}
}

// Open releases the gate (idempotent).
func Open(name string) {
	c := gateOf(name)
	gateMu.Lock()
	defer gateMu.Unlock()
	if !gateOpen[name] {
		gateOpen[name] = true
		close(c)
	}
}

// ResetGates forgets all gates (start of a harness).
func ResetGates() {
	gateMu.Lock()
	defer gateMu.Unlock()
	gateCh = map[string]chan struct{}{}
	gateOpen = map[string]bool{}
}

// ScriptListener is a net.Listener handing out the given connections, then blocking until closed.
type ScriptListener struct {
	Conns      []net.Conn
	Accepted   int
	closed     chan struct{}
	once       sync.Once
	AfterClose int // Accept calls that returned the "closed" error
}

// NewScriptListener creates the listener.
func NewScriptListener(conns ...net.Conn) *ScriptListener {
	return &ScriptListener{Conns: conns, closed: make(chan struct{})}
}

type listenerClosedErr struct{}

func (listenerClosedErr) Error() string   { return "use of closed network connection" }
func (listenerClosedErr) Timeout() bool   { return false }
func (listenerClosedErr) Temporary() bool { return false }

// Accept implements net.Listener.
func (l *ScriptListener) Accept() (net.Conn, error) {
	select {
	case <-l.closed:
		l.AfterClose++
		return nil, listenerClosedErr{}
	default:
	}
	if l.Accepted < len(l.Conns) {
		c := l.Conns[l.Accepted]
		l.Accepted++
		return c, nil
	}
	<-l.closed
	l.AfterClose++
	return nil, listenerClosedErr{}
}

// Close implements net.Listener.
func (l *ScriptListener) Close() error {
	l.once.Do(func() { close(l.closed) })
	return nil
}

// Addr implements net.Listener.
func (l *ScriptListener) Addr() net.Addr { return scriptAddr{} }

// CancelCtx is a minimal cancellable context.
type CancelCtx struct {
	done chan struct{}
	once sync.Once
}

// NewCancelCtx creates a context that is cancelled by Cancel().
func NewCancelCtx() *CancelCtx { return &CancelCtx{done: make(chan struct{})} }

func (c *CancelCtx) Deadline() (time.Time, bool)       { return time.Time{}, false }
func (c *CancelCtx) Done() <-chan struct{}             { return c.done }
func (c *CancelCtx) Err() error                        { return nil }
func (c *CancelCtx) Value(key interface{}) interface{} { return nil }

// Cancel closes Done.
func (c *CancelCtx) Cancel() { c.once.Do(func() { close(c.done) }) }
