package zzvrf

import (
	"bufio"
	"encoding/gob"
	"errors"
	"hash"
	"io"
	"io/fs"
	"os"
	"path/filepath"
	"sync"
	"time"
)

// ---- a file-system model for the file store ------------------------------------------------
//
// Under the engine the os / bufio.Writer / encoding/gob / crypto/sha1 entry points used by
// pkg/storage/file are redirected (sx/redirects.go) to the Model* functions below, which keep
// the "disk" in ordinary Go maps that the engine executes symbolically like any other code.
// Compiled natively none of this is used: harnesses run against a real temporary directory.
//
// What the model keeps per path: directory or file; the bytes written to the file; and, for
// files written through a gob.Encoder, the sequence of encoded *values* (deep copies of the
// exported fields, which is what gob transmits) instead of bytes, plus a flag for a torn last
// value. A gob.Decoder over such a file yields the values in order, io.EOF at the end, and a
// non-EOF error where a value was torn.

type vfsNode struct {
	dir     bool
	data    []byte
	recs    []interface{}
	partial bool
}

type vfsHandle struct {
	path   string
	node   *vfsNode
	closed bool
	// overwrite: opened for writing without O_TRUNC / O_APPEND on a file that had content: what is
	// written replaces the old content from offset 0, the rest of the old content stays behind
	overwrite bool
	oldData   []byte
	oldRecs   int
	newData   []byte
	newRecs   []interface{}
}

// vfsAppend is a write through handle h.
func vfsAppend(h *vfsHandle, data []byte, recs []interface{}) {
	if !h.overwrite {
		h.node.data = append(h.node.data, data...)
		h.node.recs = append(h.node.recs, recs...)
		return
	}
	h.newData = append(h.newData, data...)
	h.newRecs = append(h.newRecs, recs...)
	nd := append([]byte(nil), h.newData...)
	if len(nd) < len(h.oldData) {
		nd = append(nd, h.oldData[len(nd):]...)
	}
	h.node.data = nd
	h.node.recs = append([]interface{}(nil), h.newRecs...)
	// fewer values than before (value counts stand for byte lengths): the tail of the old stream
	// follows the new one - not a decodable continuation
	h.node.partial = len(h.newRecs) < h.oldRecs
}

var vfsNodes = map[string]*vfsNode{}
var vfsFiles = map[*os.File]*vfsHandle{}

// vfsFrozen is set when a simulated crash has happened: any later mutation is a modelling error
// (a real crash stops the process, deferred calls included).
var vfsFrozen bool

// errVfsNotExist is os.ErrNotExist itself, so that os.IsNotExist / errors.Is(err, fs.ErrNotExist)
// in the code under test see what they see with the real file system.
var errVfsNotExist = os.ErrNotExist
var errVfsExist = os.ErrExist
var errVfsNotEmpty = errors.New("vfs: directory not empty")
var errVfsClosed = errors.New("vfs: file already closed")

// VfsTempDir returns the storage path for a file-store harness: a fresh real temporary directory
// natively, the (emptied) model file system under the engine.
func VfsTempDir() string {
	if Symbolic() {
		vfsNodes = map[string]*vfsNode{"/": {dir: true}, "/vfs": {dir: true}}
		vfsFiles = map[*os.File]*vfsHandle{}
		vfsFrozen = false
		return "/vfs"
	}
	d, err := os.MkdirTemp("", "vrf-fs")
	if err != nil {
		panic(err)
	}
	vfsTempDirs = append(vfsTempDirs, d)
	return d
}

var vfsTempDirs []string

// VfsCleanup removes the temporary directories handed out by VfsTempDir (native runs).
func VfsCleanup() {
	if Symbolic() {
		return
	}
	for _, d := range vfsTempDirs {
		_ = os.RemoveAll(d)
	}
	vfsTempDirs = nil
}

// VfsFreeze marks the instant of a simulated crash (engine only): nothing may touch the disk
// until VfsThaw (the restart).
func VfsFreeze() {
	if Symbolic() {
		vfsFrozen = true
	}
}

// VfsThaw ends the crash window.
func VfsThaw() {
	if Symbolic() {
		vfsFrozen = false
	}
}

func vfsMutation() {
	if vfsFrozen {
		Unreachable("file-system mutation after the simulated crash (deferred clean-up would not run in a real crash)")
	}
}

// ReadAll reads a message source completely (io.ReadAll natively).
func ReadAll(r io.Reader) ([]byte, error) {
	if Symbolic() {
		if f, ok := r.(*os.File); ok {
			h := vfsFiles[f]
			if h == nil || h.closed || h.node.dir {
				return nil, errVfsClosed
			}
			out := make([]byte, len(h.node.data))
			copy(out, h.node.data)
			return out, nil
		}
	}
	return io.ReadAll(r)
}

type vfsInfo struct{ dir bool }

func (vfsInfo) Name() string        { return "" }
func (vfsInfo) Size() int64         { return 0 }
func (i vfsInfo) Mode() fs.FileMode { return 0 }
func (vfsInfo) ModTime() time.Time  { return time.Time{} }
func (i vfsInfo) IsDir() bool       { return i.dir }
func (vfsInfo) Sys() interface{}    { return nil }

// ModelOsStat models os.Stat.
func ModelOsStat(name string) (os.FileInfo, error) {
	n := vfsNodes[filepath.Clean(name)]
	if n == nil {
		return nil, errVfsNotExist
	}
	return vfsInfo{dir: n.dir}, nil
}

// ModelOsMkdirAll models os.MkdirAll.
func ModelOsMkdirAll(path string, perm os.FileMode) error {
	path = filepath.Clean(path)
	if n := vfsNodes[path]; n != nil {
		if n.dir {
			return nil
		}
		return errVfsExist
	}
	parent := filepath.Dir(path)
	if parent != path {
		if err := ModelOsMkdirAll(parent, perm); err != nil {
			return err
		}
	}
	// MkdirAll is one mkdir per missing level: another goroutine may run in between
	PreemptPoint()
	if p := vfsNodes[parent]; parent != path && (p == nil || !p.dir) {
		return errVfsNotExist
	}
	if n := vfsNodes[path]; n != nil {
		if n.dir {
			return nil
		}
		return errVfsExist
	}
	vfsMutation()
	vfsNodes[path] = &vfsNode{dir: true}
	return nil
}

// ModelOsMkdir models os.Mkdir.
func ModelOsMkdir(path string, perm os.FileMode) error {
	path = filepath.Clean(path)
	if vfsNodes[path] != nil {
		return errVfsExist
	}
	if p := vfsNodes[filepath.Dir(path)]; p == nil || !p.dir {
		return errVfsNotExist
	}
	vfsMutation()
	vfsNodes[path] = &vfsNode{dir: true}
	return nil
}

// ModelOsCreate models os.Create: the file is created or truncated.
func ModelOsCreate(name string) (*os.File, error) {
	name = filepath.Clean(name)
	if p := vfsNodes[filepath.Dir(name)]; p == nil || !p.dir {
		return nil, errVfsNotExist
	}
	n := vfsNodes[name]
	if n != nil && n.dir {
		return nil, errVfsExist
	}
	vfsMutation()
	// a new node: readers that opened the old content keep seeing it (as with a real inode whose
	// content was truncated they would not, but no reader is active across a mutation here:
	// every store operation runs under the mailbox lock)
	n = &vfsNode{}
	vfsNodes[name] = n
	f := &os.File{}
	vfsFiles[f] = &vfsHandle{path: name, node: n}
	return f, nil
}

// ModelOsOpenFile models os.OpenFile for the flags O_RDONLY/O_WRONLY/O_RDWR, O_CREATE, O_EXCL,
// O_TRUNC, O_APPEND.
func ModelOsOpenFile(name string, flag int, perm os.FileMode) (*os.File, error) {
	name = filepath.Clean(name)
	n := vfsNodes[name]
	writing := flag&(os.O_WRONLY|os.O_RDWR) != 0
	if n == nil {
		if flag&os.O_CREATE == 0 {
			return nil, errVfsNotExist
		}
		if p := vfsNodes[filepath.Dir(name)]; p == nil || !p.dir {
			return nil, errVfsNotExist
		}
		vfsMutation()
		n = &vfsNode{}
		vfsNodes[name] = n
	} else if flag&os.O_CREATE != 0 && flag&os.O_EXCL != 0 {
		return nil, errVfsExist
	}
	if n.dir && writing {
		return nil, errVfsExist
	}
	h := &vfsHandle{path: name, node: n}
	if writing && !n.dir {
		if flag&os.O_TRUNC != 0 {
			vfsMutation()
			n = &vfsNode{}
			vfsNodes[name] = n
			h.node = n
		} else if flag&os.O_APPEND == 0 && (len(n.data) > 0 || len(n.recs) > 0) {
			h.overwrite = true
			h.oldData = n.data
			h.oldRecs = len(n.recs)
		}
	}
	f := &os.File{}
	vfsFiles[f] = h
	return f, nil
}

// ModelOsOpen models os.Open.
func ModelOsOpen(name string) (*os.File, error) {
	name = filepath.Clean(name)
	n := vfsNodes[name]
	if n == nil {
		return nil, errVfsNotExist
	}
	f := &os.File{}
	vfsFiles[f] = &vfsHandle{path: name, node: n}
	return f, nil
}

func vfsHasChildren(path string) bool {
	for p := range vfsNodes {
		if p != path && filepath.Dir(p) == path {
			return true
		}
	}
	return false
}

// ModelOsRemove models os.Remove.
func ModelOsRemove(name string) error {
	name = filepath.Clean(name)
	n := vfsNodes[name]
	if n == nil {
		return errVfsNotExist
	}
	if n.dir && vfsHasChildren(name) {
		return errVfsNotEmpty
	}
	vfsMutation()
	delete(vfsNodes, name)
	return nil
}

func vfsUnder(p, root string) bool {
	for p != root {
		d := filepath.Dir(p)
		if d == p {
			return false
		}
		p = d
	}
	return true
}

// ModelOsRemoveAll models os.RemoveAll.
func ModelOsRemoveAll(path string) error {
	path = filepath.Clean(path)
	if vfsNodes[path] == nil {
		return nil
	}
	vfsMutation()
	var gone []string
	for p := range vfsNodes {
		if vfsUnder(p, path) {
			gone = append(gone, p)
		}
	}
	for _, p := range gone {
		delete(vfsNodes, p)
	}
	return nil
}

// ModelOsRename models os.Rename for regular files (atomic replacement).
func ModelOsRename(oldpath, newpath string) error {
	oldpath, newpath = filepath.Clean(oldpath), filepath.Clean(newpath)
	n := vfsNodes[oldpath]
	if n == nil {
		return errVfsNotExist
	}
	if p := vfsNodes[filepath.Dir(newpath)]; p == nil || !p.dir {
		return errVfsNotExist
	}
	if t := vfsNodes[newpath]; t != nil && (t.dir || n.dir) {
		return errVfsExist
	}
	vfsMutation()
	delete(vfsNodes, oldpath)
	vfsNodes[newpath] = n
	return nil
}

// ModelFileClose models (*os.File).Close.
func ModelFileClose(f *os.File) error {
	h := vfsFiles[f]
	if h == nil || h.closed {
		return errVfsClosed
	}
	h.closed = true
	return nil
}

// ModelFileSync models (*os.File).Sync.
func ModelFileSync(f *os.File) error {
	h := vfsFiles[f]
	if h == nil || h.closed {
		return errVfsClosed
	}
	return nil
}

// ModelFileName models (*os.File).Name.
func ModelFileName(f *os.File) string {
	if h := vfsFiles[f]; h != nil {
		return h.path
	}
	return ""
}

// ModelFileWrite models (*os.File).Write.
func ModelFileWrite(f *os.File, b []byte) (int, error) {
	h := vfsFiles[f]
	if h == nil || h.closed || h.node.dir {
		return 0, errVfsClosed
	}
	vfsMutation()
	vfsAppend(h, b, nil)
	return len(b), nil
}

// ModelFileReaddirnames models (*os.File).Readdirnames(0).
func ModelFileReaddirnames(f *os.File, n int) ([]string, error) {
	h := vfsFiles[f]
	if h == nil || h.closed || !h.node.dir {
		return nil, errVfsClosed
	}
	var names []string
	for p := range vfsNodes {
		if p != h.path && filepath.Dir(p) == h.path {
			names = append(names, filepath.Base(p))
		}
	}
	return names, nil
}

// ---- bufio.Writer over a model file ----

type vfsWriter struct {
	dst  io.Writer
	data []byte
	recs []interface{}
}

var vfsWriters = map[*bufio.Writer]*vfsWriter{}

// ModelBufioNewWriter models bufio.NewWriter.
func ModelBufioNewWriter(w io.Writer) *bufio.Writer {
	bw := &bufio.Writer{}
	vfsWriters[bw] = &vfsWriter{dst: w}
	return bw
}

// ModelBufioWrite models (*bufio.Writer).Write: everything stays buffered until Flush (messages
// and indexes larger than the 4096-byte buffer reach the file earlier in reality; a crash in
// between is covered by the torn-write cases of the flush).
func ModelBufioWrite(bw *bufio.Writer, p []byte) (int, error) {
	w := vfsWriters[bw]
	w.data = append(w.data, p...)
	return len(p), nil
}

// ModelBufioFlush models (*bufio.Writer).Flush.
func ModelBufioFlush(bw *bufio.Writer) error {
	w := vfsWriters[bw]
	f, ok := w.dst.(*os.File)
	if !ok {
		Unreachable("bufio.Writer over something that is not a model file")
		return nil
	}
	h := vfsFiles[f]
	if h == nil || h.closed {
		return errVfsClosed
	}
	if len(w.data) > 0 || len(w.recs) > 0 {
		vfsMutation()
	}
	vfsAppend(h, w.data, w.recs)
	w.data, w.recs = nil, nil
	return nil
}

// ---- encoding/gob over model files ----

var vfsEncoders = map[*gob.Encoder]io.Writer{}

type vfsDecoder struct {
	node *vfsNode
	next int
}

var vfsDecoders = map[*gob.Decoder]*vfsDecoder{}
var vfsBufReaders = map[*bufio.Reader]io.Reader{}

var errVfsGobTorn = errors.New("unexpected EOF")
var errVfsGobType = errors.New("gob: type mismatch")

// GobCopy returns what gob would transmit for v: a deep copy of the value (pointers followed)
// restricted to exported fields. Engine intrinsic; never called natively.
func GobCopy(v interface{}) interface{} { panic("engine only") }

// GobAssign stores a value produced by GobCopy into *p the way a gob.Decoder would (exported
// fields only); false if the types do not match. Engine intrinsic.
func GobAssign(p interface{}, rec interface{}) bool { panic("engine only") }

// ModelGobNewEncoder models gob.NewEncoder.
func ModelGobNewEncoder(w io.Writer) *gob.Encoder {
	e := &gob.Encoder{}
	vfsEncoders[e] = w
	return e
}

// ModelGobEncode models (*gob.Encoder).Encode.
func ModelGobEncode(e *gob.Encoder, v interface{}) error {
	rec := GobCopy(v)
	switch w := vfsEncoders[e].(type) {
	case *bufio.Writer:
		bw := vfsWriters[w]
		bw.recs = append(bw.recs, rec)
	case *os.File:
		h := vfsFiles[w]
		if h == nil || h.closed {
			return errVfsClosed
		}
		vfsMutation()
		vfsAppend(h, nil, []interface{}{rec})
	default:
		Unreachable("gob encoder over a writer the model cannot see")
	}
	return nil
}

// ModelBufioResetFile extends the bufio.Reader model: Reset onto a model file.
func vfsReaderFile(r io.Reader) *vfsHandle {
	switch c := r.(type) {
	case *os.File:
		return vfsFiles[c]
	case *bufio.Reader:
		return vfsReaderFile(vfsBufReaders[c])
	}
	return nil
}

// ModelGobNewDecoder models gob.NewDecoder.
func ModelGobNewDecoder(r io.Reader) *gob.Decoder {
	d := &gob.Decoder{}
	h := vfsReaderFile(r)
	if h == nil {
		Unreachable("gob decoder over a reader the model cannot see")
		return d
	}
	vfsDecoders[d] = &vfsDecoder{node: h.node}
	return d
}

// ModelGobDecode models (*gob.Decoder).Decode.
func ModelGobDecode(d *gob.Decoder, p interface{}) error {
	st := vfsDecoders[d]
	if st == nil {
		return io.EOF
	}
	if st.next >= len(st.node.recs) {
		if st.node.partial || len(st.node.data) > 0 {
			// a torn value, or bytes that are not a gob stream
			return errVfsGobTorn
		}
		return io.EOF
	}
	rec := st.node.recs[st.next]
	st.next++
	if !GobAssign(p, rec) {
		return errVfsGobType
	}
	return nil
}

// ---- sync.Pool, crypto/sha1 ----

// ModelPoolGet models (*sync.Pool).Get with an always-empty pool.
func ModelPoolGet(p *sync.Pool) interface{} {
	if p.New != nil {
		return p.New()
	}
	return nil
}

// ModelPoolPut models (*sync.Pool).Put.
func ModelPoolPut(p *sync.Pool, v interface{}) {}

type sha1Model struct{ buf []byte }

func (h *sha1Model) Write(p []byte) (int, error) { h.buf = append(h.buf, p...); return len(p), nil }
func (h *sha1Model) Sum(b []byte) []byte         { return append(b, SHA1(h.buf)...) }
func (h *sha1Model) Reset()                      { h.buf = nil }
func (h *sha1Model) Size() int                   { return 20 }
func (h *sha1Model) BlockSize() int              { return 64 }

// SHA1 is the real SHA-1 of concrete bytes (engine intrinsic; symbolic input aborts the run).
func SHA1(b []byte) []byte { panic("engine only") }

// ModelSHA1New models sha1.New.
func ModelSHA1New() hash.Hash { return &sha1Model{} }

// ---- tearing: the on-disk effect of a crash in the middle of a write ----

// TearRaw cuts the file at path down to its first n bytes (a write that was interrupted).
func TearRaw(path string, n int) {
	if Symbolic() {
		nd := vfsNodes[filepath.Clean(path)]
		if nd == nil || nd.dir {
			return
		}
		if n < len(nd.data) {
			nd.data = nd.data[:n]
		}
		return
	}
	if st, err := os.Stat(path); err == nil && int64(n) < st.Size() {
		_ = os.Truncate(path, int64(n))
	}
}

// TearGob cuts the gob stream at path after its first nvals complete values; with partial the
// next value is left half-written.
func TearGob(path string, nvals int, partial bool) {
	if Symbolic() {
		nd := vfsNodes[filepath.Clean(path)]
		if nd == nil || nd.dir {
			return
		}
		if nvals < len(nd.recs) {
			nd.recs = nd.recs[:nvals]
			nd.partial = partial
		}
		return
	}
	data, err := os.ReadFile(path)
	if err != nil {
		return
	}
	// a gob stream is a sequence of messages: uvarint byte count, then the message, which starts
	// with a signed type id; negative ids are type definitions, positive ids carry a value
	off, vals, lastEnd := 0, 0, 0
	cut := -1
	for off < len(data) {
		n, w := gobUint(data[off:])
		if w == 0 || off+w+int(n) > len(data) {
			break
		}
		id, _ := gobUint(data[off+w:])
		isValue := id&1 == 0 // signed encoding: bit 0 set = negative = type definition
		end := off + w + int(n)
		if isValue {
			if vals == nvals {
				// value number nvals (and the type definitions sent just before it) goes
				cut = lastEnd
				if partial {
					cut = off + (end-off)/2
				}
				break
			}
			vals++
			lastEnd = end
		}
		off = end
	}
	if cut >= 0 {
		_ = os.Truncate(path, int64(cut))
	}
}

// gobUint decodes gob's unsigned integer encoding; returns value and width (0 on error).
func gobUint(b []byte) (uint64, int) {
	if len(b) == 0 {
		return 0, 0
	}
	if b[0] < 128 {
		return uint64(b[0]), 1
	}
	n := int(-int8(b[0]))
	if n > 8 || len(b) < 1+n {
		return 0, 0
	}
	var v uint64
	for i := 0; i < n; i++ {
		v = v<<8 | uint64(b[1+i])
	}
	return v, 1 + n
}
