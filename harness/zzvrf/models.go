package zzvrf

// Models of library functions, executed symbolically by the engine in place of the real
// functions (see engine/sx/redirects.go). They are never called in native builds.

// EnvHavoc, when set by a harness, fills the configuration struct handed to envconfig.Process
// (the model of "the environment holds arbitrary values").
var EnvHavoc func(spec interface{})

// ModelEnvconfigProcess models github.com/kelseyhightower/envconfig.Process.
func ModelEnvconfigProcess(prefix string, spec interface{}) error {
	if EnvHavoc != nil {
		EnvHavoc(spec)
	}
	return nil
}
