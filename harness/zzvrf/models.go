package zzvrf

// Models of library functions, executed symbolically by the engine in place of the real
// functions (see engine/sx/redirects.go). They are never called in native builds.

// EnvHavoc, when set by a harness, fills the configuration struct handed to envconfig.Process
// (the model of "the environment holds arbitrary values").
var EnvHavoc func(spec interface{})

// ModelEnvconfigProcess models github.com/kelseyhightower/envconfig.Process.
func ModelEnvconfigProcess(prefix string, spec interface{}) error {
	if EnvHavoc != nil {
		EnvHavoc(spec)
	}
	return nil
}

// LenOf / SwapElems are engine helpers for models that handle slices of any element type
// (natively they are never called).
func LenOf(slice interface{}) int              { panic("engine only") }
func SwapElems(slice interface{}, i, j int)     { panic("engine only") }

// ModelSortSlice models sort.Slice: an insertion sort driven by the caller's less function (any
// permutation sorted by less is a legal outcome of sort.Slice; callers in inbucket sort by unique
// keys, for which the result is unique).
func ModelSortSlice(x interface{}, less func(i, j int) bool) {
	n := LenOf(x)
	for i := 1; i < n; i++ {
		for j := i; j > 0; j-- {
			if less(j, j-1) {
				SwapElems(x, j, j-1)
			} else {
				break
			}
		}
	}
}
