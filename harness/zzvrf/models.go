package zzvrf

import (
	"errors"
	"net/mail"
	"net/textproto"
)

// Models of library functions, executed symbolically by the engine in place of the real
// functions (see engine/sx/redirects.go). They are never called in native builds.

// EnvHavoc, when set by a harness, fills the configuration struct handed to envconfig.Process
// (the model of "the environment holds arbitrary values").
var EnvHavoc func(spec interface{})

// ModelEnvconfigProcess models github.com/kelseyhightower/envconfig.Process.
func ModelEnvconfigProcess(prefix string, spec interface{}) error {
	if EnvHavoc != nil {
		EnvHavoc(spec)
	}
	return nil
}

// LenOf / SwapElems are engine helpers for models that handle slices of any element type
// (natively they are never called).
func LenOf(slice interface{}) int           { panic("engine only") }
func SwapElems(slice interface{}, i, j int) { panic("engine only") }

// ModelSortSlice models sort.Slice: an insertion sort driven by the caller's less function (any
// permutation sorted by less is a legal outcome of sort.Slice; callers in inbucket sort by unique
// keys, for which the result is unique).
func ModelSortSlice(x interface{}, less func(i, j int) bool) {
	n := LenOf(x)
	for i := 1; i < n; i++ {
		for j := i; j > 0; j-- {
			if less(j, j-1) {
				SwapElems(x, j, j-1)
			} else {
				break
			}
		}
	}
}

// ---- enmime header decoding (third-party MIME parser: outside the encoding) ----
// The harness states which From / To / Subject header values the message carries; the model hands
// exactly those to the caller. Natively the real enmime parses the real source, which the harness
// builds from the same values.

// HdrFrom, HdrTo, HdrSubject are the header values of the message being delivered ("" = absent).
var HdrFrom, HdrTo, HdrSubject string

// ModelEnmimeDecodeHeaders models enmime.DecodeHeaders.
func ModelEnmimeDecodeHeaders(b []byte, addtl ...string) (textproto.MIMEHeader, error) {
	h := textproto.MIMEHeader{}
	if HdrFrom != "" {
		h["From"] = []string{HdrFrom}
	}
	if HdrTo != "" {
		h["To"] = []string{HdrTo}
	}
	if HdrSubject != "" {
		h["Subject"] = []string{HdrSubject}
	}
	return h, nil
}

// ModelMIMEHeaderGet models textproto.MIMEHeader.Get for canonical keys.
func ModelMIMEHeaderGet(h textproto.MIMEHeader, key string) string {
	v := h[key]
	if len(v) == 0 {
		return ""
	}
	return v[0]
}

// ModelEnmimeParseAddressList models enmime.ParseAddressList for the plain addr-spec values the
// harness uses: an empty list is an error, otherwise one address.
func ModelEnmimeParseAddressList(list string) ([]*mail.Address, error) {
	if list == "" {
		return nil, errors.New("mail: no address")
	}
	return []*mail.Address{{Address: list}}, nil
}
