package zzvrf

import (
	"encoding/json"
	"io"
	"net/http"
	"net/textproto"

	"github.com/inbucket/inbucket/v3/pkg/rest/model"
	"github.com/jhillyerd/enmime/v2"
)

// RecWriter is a recording http.ResponseWriter. Under the engine the JSON encoder model stores the
// encoded value in Value (no JSON text is produced); natively Body holds the real bytes.
type RecWriter struct {
	Status int
	Hdr    http.Header
	Body   []byte
	Value  interface{} // engine only
	Writes int
}

// NewRecWriter returns an empty recorder (status 0 = nothing written yet = 200).
func NewRecWriter() *RecWriter { return &RecWriter{Hdr: http.Header{}} }

func (w *RecWriter) Header() http.Header { return w.Hdr }
func (w *RecWriter) WriteHeader(code int) {
	if w.Status == 0 {
		w.Status = code
	}
}
func (w *RecWriter) Write(p []byte) (int, error) {
	if w.Status == 0 {
		w.Status = 200
	}
	w.Writes++
	w.Body = append(w.Body, p...)
	return len(p), nil
}

// Code is the effective status.
func (w *RecWriter) Code() int {
	if w.Status == 0 {
		return 200
	}
	return w.Status
}

// SeenBody is a request body for the mark-seen endpoint: empty, {"seen":true} or {"seen":false}.
type SeenBody struct {
	Empty bool
	Seen  bool
	pos   int
}

func (b *SeenBody) text() string {
	if b.Empty {
		return ""
	}
	if b.Seen {
		return `{"seen":true}`
	}
	return `{"seen":false}`
}
func (b *SeenBody) Read(p []byte) (int, error) {
	t := b.text()
	if b.pos >= len(t) {
		return 0, io.EOF
	}
	n := copy(p, t[b.pos:])
	b.pos += n
	return n, nil
}

// Close implements io.Closer.
func (b *SeenBody) Close() error { return nil }

// ---- models (engine only) ----

// ModelHTTPNotFound models http.NotFound.
func ModelHTTPNotFound(w http.ResponseWriter, r *http.Request) {
	w.WriteHeader(404)
	w.Write([]byte("404 page not found\n"))
}

// ModelHTTPError models http.Error.
func ModelHTTPError(w http.ResponseWriter, msg string, code int) {
	w.WriteHeader(code)
	w.Write([]byte(msg))
}

// ModelHeaderSet models http.Header.Set (header values are not inspected by the harnesses).
func ModelHeaderSet(h http.Header, key, value string) {}

var encWriter = map[*json.Encoder]io.Writer{}
var decBody = map[*json.Decoder]io.Reader{}

// ModelJSONNewEncoder models json.NewEncoder.
func ModelJSONNewEncoder(w io.Writer) *json.Encoder {
	e := &json.Encoder{}
	encWriter[e] = w
	return e
}

// ModelJSONEncode models (*json.Encoder).Encode: the value is recorded, not rendered.
func ModelJSONEncode(e *json.Encoder, v interface{}) error {
	if rw, ok := encWriter[e].(*RecWriter); ok {
		if rw.Status == 0 {
			rw.Status = 200
		}
		rw.Writes++
		rw.Value = v
		return nil
	}
	Unreachable("json encoder over a writer the model cannot see")
	return nil
}

// ModelJSONNewDecoder models json.NewDecoder.
func ModelJSONNewDecoder(r io.Reader) *json.Decoder {
	d := &json.Decoder{}
	decBody[d] = r
	return d
}

// ModelJSONDecode models (*json.Decoder).Decode for the mark-seen request body.
func ModelJSONDecode(d *json.Decoder, v interface{}) error {
	b, ok := decBody[d].(*SeenBody)
	if !ok || b == nil {
		return io.EOF
	}
	if b.Empty {
		return io.EOF
	}
	if h, ok := v.(*model.JSONMessageHeaderV1); ok {
		h.Seen = b.Seen
		return nil
	}
	Unreachable("json decode into an unexpected type")
	return nil
}

// ModelIOCopy models io.Copy: everything readable from src is written to dst in one Write.
func ModelIOCopy(dst io.Writer, src io.Reader) (int64, error) {
	data, err := ReadAll(src)
	if err != nil {
		return 0, err
	}
	n, werr := dst.Write(data)
	return int64(n), werr
}

// ModelEnmimeReadEnvelope models enmime.ReadEnvelope: the MIME structure is outside the encoding;
// an envelope without HTML, text, attachments or errors is returned.
func ModelEnmimeReadEnvelope(r io.Reader) (*enmime.Envelope, error) {
	return &enmime.Envelope{Root: &enmime.Part{Header: textproto.MIMEHeader{}}}, nil
}

// gorilla/mux keeps the route variables of a request in the request's context; the model keeps the
// variables of the one request in flight.
var muxCurVars map[string]string

func ModelMuxSetURLVars(r *http.Request, vars map[string]string) *http.Request {
	muxCurVars = vars
	return r
}

func ModelMuxVars(r *http.Request) map[string]string { return muxCurVars }
