package stringutil

import (
	vrf "github.com/inbucket/inbucket/v3/pkg/zzvrf"
)

func vrfRefMatch(p, s string) bool {
	np, ns := len(p), len(s)
	m := make([][]bool, np+1)
	for i := range m {
		m[i] = make([]bool, ns+1)
	}
	m[np][ns] = true
	for i := np - 1; i >= 0; i-- {
		for j := ns; j >= 0; j-- {
			v := false
			if p[i] == '*' {
				if m[i+1][j] {
					v = true
				}
				if j < ns {
					if m[i][j+1] {
						v = true
					}
				}
			} else if j < ns {
				if p[i] == '?' {
					v = m[i+1][j+1]
				} else if p[i] == s[j] {
					v = m[i+1][j+1]
				}
			}
			m[i][j] = v
		}
	}
	return m[0][0]
}

// VerifC05Wildcard: MatchWithWildcards(p, s) equals the reference matcher for every ASCII pattern p
// of np bytes and every subject s of ns bytes that can be a validated, lower-cased domain (no '*'
// or '?': no caller can pass one).
func VerifC05Wildcard(np int, ns int) {
	p := vrf.StringN("p", np)
	s := vrf.StringN("s", ns)
	for i := 0; i < np; i++ {
		vrf.Assume(p[i] < 0x80)
	}
	for i := 0; i < ns; i++ {
		vrf.Assume(s[i] < 0x80)
		vrf.Assume(s[i] != '*')
		vrf.Assume(s[i] != '?')
	}
	want := vrfRefMatch(p, s)
	got := MatchWithWildcards(p, s)
	vrf.CoverIf("match", want)
	vrf.CoverIf("nomatch", !want)
	vrf.Assert("wildcard-equals-reference", got == want)
}

// VerifC05Lower: SliceToLower lower-cases every entry in place; SliceContains is exact membership.
func VerifC05Lower(n int) {
	a := vrf.StringN("a", n)
	b := vrf.StringN("b", n)
	for i := 0; i < n; i++ {
		vrf.Assume(a[i] < 0x80)
		vrf.Assume(b[i] < 0x80)
	}
	l := []string{a, b}
	SliceToLower(l)
	vrf.Cover("lowered")
	for k := 0; k < 2; k++ {
		for i := 0; i < n; i++ {
			c := l[k][i]
			up := false
			if 'A' <= c {
				if c <= 'Z' {
					up = true
				}
			}
			vrf.Assert("no-upper-left", !up)
		}
	}
	q := vrf.StringN("q", n)
	in := false
	if q == l[0] {
		in = true
	}
	if q == l[1] {
		in = true
	}
	vrf.Assert("contains-exact", SliceContains(l, q) == in)
}
