package extension

import (
	"sync"
	"time"

	"github.com/inbucket/inbucket/v3/pkg/extension/event"
	vrf "github.com/inbucket/inbucket/v3/pkg/zzvrf"
)

// VerifC16Order: the ordering clause of C16 on the real AsyncEventBroker / Host. One listener
// (name "vrf") is registered through the public Host API for stored and deleted events. n events
// are emitted one after the other by one emitter; event i is a stored event or (scn bit) the
// deleted event of an earlier stored message. Each listener invocation may be held back at a gate
// (symbolic inputs gate_h<i>) until a *later* invocation or, failing that, the harness after
// quiescence releases it - this is how a slow listener and every relative scheduling of the
// dispatch goroutines is represented, and it replays natively with real goroutines.
//
// With gap = g > 0 the emitter pauses after every g-th event so that the dispatch runs in between
// (events then arrive while the listener is busy with a batch queued earlier).
//
// Asserted: the emitter is never blocked by a slow listener; no invocation starts while another one
// of the same listener is still running; the listener sees the events in emission order (so a
// message's stored before its deleted, and deliveries in arrival order); every event is seen
// exactly once.
func VerifC16Order(n int, mixed int, gap int) {
	vrf.ResetGates()
	host := NewHost()
	var mu sync.Mutex
	inFlight := 0
	overlap := false
	var seen []string
	listen := func(kind string) func(event.MessageMetadata) {
		return func(m event.MessageMetadata) {
			mu.Lock()
			if inFlight > 0 {
				overlap = true
			}
			inFlight++
			mu.Unlock()
			// which event this is (a case split: after merges inside the dispatcher the event may be
			// a symbolic choice among several)
			me := vrf.Fork(int(m.Subject[0] - '0'))
			// later invocations release the earlier ones they overtook
			for j := 1; j < me; j++ {
				vrf.Open("h" + vrfTag(j))
			}
			vrf.Gate("h" + vrfTag(me))
			mu.Lock()
			seen = append(seen, kind+m.ID)
			inFlight--
			mu.Unlock()
		}
	}
	host.Events.AfterMessageStored.AddListener("vrf", listen("S"))
	host.Events.AfterMessageDeleted.AddListener("vrf", listen("D"))

	var want []string
	emitted := make(chan bool, 1)
	go func() {
		stored := 0
		for i := 1; i <= n; i++ {
			del := mixed == 1 && i%2 == 0 // every second event deletes the message stored just before
			if del {
				ev := event.MessageMetadata{Mailbox: "a", ID: vrfTag(stored), Subject: vrfTag(i)}
				want = append(want, "D"+ev.ID)
				host.Events.AfterMessageDeleted.Emit(&ev)
			} else {
				stored++
				ev := event.MessageMetadata{Mailbox: "a", ID: vrfTag(stored), Subject: vrfTag(i)}
				want = append(want, "S"+ev.ID)
				host.Events.AfterMessageStored.Emit(&ev)
			}
			if gap != 0 && i%gap == 0 {
				// the dispatch gets going (as far as it can) before the next event is emitted
				vrf.Quiesce()
			}
		}
		emitted <- true
	}()
	select {
	case <-emitted:
	case <-time.After(4 * time.Second):
		vrf.Assert("emit-never-blocks-the-emitter", false)
		for j := 1; j <= n; j++ {
			vrf.Open("h" + vrfTag(j))
		}
		return
	}
	vrf.Quiesce()
	// whatever is still held is released now, oldest first, letting the dispatch settle each time
	for j := 1; j <= n; j++ {
		vrf.Open("h" + vrfTag(j))
		vrf.Quiesce()
	}
	mu.Lock()
	defer mu.Unlock()
	vrf.Assert("listener-never-re-entered", !overlap)
	vrf.Assert("every-event-seen-once", len(seen) == n)
	inOrder := len(seen) == len(want)
	if inOrder {
		for i := range want {
			if seen[i] != want[i] {
				inOrder = false
			}
		}
	}
	vrf.Assert("events-in-emission-order", inOrder)
	vrf.Cover("order-done")
	vrf.CoverIf("some-invocation-held", len(seen) == n && vrf.Bool("gate_h1"))
}

func vrfTag(i int) string { return string(rune('0' + i)) }
